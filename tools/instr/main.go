// Command instr writes an instrumented copy of the model3d packages (and of
// github.com/unixpickle/essentials) in which every source of scheduling and
// map-order nondeterminism is routed to the vshim packages:
//
//	go statements            -> vsched.Go
//	channel send/recv/close  -> vsched.Send/Recv/Recv2/Close (range over channel too)
//	sync, sync/atomic        -> vshim/vsync, vshim/vatomic
//	runtime.GOMAXPROCS/NumCPU-> vshim/vruntime
//	math/rand                -> vshim/vrand
//	range over a map         -> range over vmap.Keys(m)
//	condition-only loops     -> vsched.Tick() horizon
//	functions in points.txt  -> vsched.Point before every statement
//
// It is syntax- and type-directed (go/packages), so it instruments whatever
// sites the current tree has; constructs it cannot model abort with exit 2.
package main

import (
	"bytes"
	"flag"
	"fmt"
	"go/ast"
	"go/format"
	"go/token"
	"go/types"
	"os"
	"path/filepath"
	"strconv"
	"strings"

	"golang.org/x/tools/go/ast/astutil"
	"golang.org/x/tools/go/packages"
)

var stats = map[string]int{}

func fatal(format string, a ...interface{}) {
	fmt.Fprintf(os.Stderr, "ERROR: instr: "+format+"\n", a...)
	os.Exit(2)
}

func sel(pkg, name string) *ast.SelectorExpr {
	return &ast.SelectorExpr{X: ast.NewIdent(pkg), Sel: ast.NewIdent(name)}
}

func call(fun ast.Expr, args ...ast.Expr) *ast.CallExpr {
	return &ast.CallExpr{Fun: fun, Args: args}
}

var syncOK = map[string]bool{"Mutex": true, "WaitGroup": true, "Map": true, "Once": true, "Locker": true, "RWMutex": true, "Pool": true}
var atomicOK = map[string]bool{"Value": true, "AddInt64": true, "LoadInt64": true, "StoreInt64": true, "AddInt32": true, "LoadInt32": true, "StoreInt32": true, "CompareAndSwapInt32": true, "CompareAndSwapInt64": true,
	"Bool": true, "Int32": true, "Int64": true, "Uint32": true, "Uint64": true, "Pointer": true, "AddUint32": true, "LoadUint32": true, "StoreUint32": true, "AddUint64": true, "LoadUint64": true, "StoreUint64": true,
	"SwapInt32": true, "SwapInt64": true, "SwapUint32": true, "SwapUint64": true, "CompareAndSwapUint32": true, "CompareAndSwapUint64": true}
var runtimeMapped = map[string]bool{"GOMAXPROCS": true, "NumCPU": true}

type fileCtx struct {
	fset     *token.FileSet
	info     *types.Info
	file     *ast.File
	pkgPath  string
	needVS   bool
	needVMap bool
	needVRT  bool
	pointFns map[string]bool
	tmp      int
}

func (c *fileCtx) pos(n ast.Node) string { return c.fset.Position(n.Pos()).String() }

func (c *fileCtx) isChan(e ast.Expr) bool {
	t := c.info.TypeOf(e)
	if t == nil {
		return false
	}
	_, ok := t.Underlying().(*types.Chan)
	return ok
}

func (c *fileCtx) isMap(e ast.Expr) bool {
	t := c.info.TypeOf(e)
	if t == nil {
		return false
	}
	_, ok := t.Underlying().(*types.Map)
	return ok
}

func (c *fileCtx) isBuiltin(id *ast.Ident, name string) bool {
	if id.Name != name {
		return false
	}
	_, ok := c.info.Uses[id].(*types.Builtin)
	return ok
}

func (c *fileCtx) pkgNameOf(id *ast.Ident) string {
	if pn, ok := c.info.Uses[id].(*types.PkgName); ok {
		return pn.Imported().Path()
	}
	return ""
}

func simpleExpr(e ast.Expr) bool {
	switch x := e.(type) {
	case *ast.Ident:
		return true
	case *ast.SelectorExpr:
		return simpleExpr(x.X)
	case *ast.ParenExpr:
		return simpleExpr(x.X)
	case *ast.StarExpr:
		return simpleExpr(x.X)
	}
	return false
}

func (c *fileCtx) newTmp(prefix string) *ast.Ident {
	c.tmp++
	return ast.NewIdent(fmt.Sprintf("__v%s%d", prefix, c.tmp))
}

// rewrite performs all rewrites on the file.
func (c *fileCtx) rewrite() {
	// 0. select statements become a switch over vsched.SelWait (see shim/vsched/chan.go); done first and top-down, so
	// that the communication clauses are gone before the channel operations inside the bodies are rewritten
	astutil.Apply(c.file, func(cur *astutil.Cursor) bool {
		n, ok := cur.Node().(*ast.SelectStmt)
		if !ok {
			return true
		}
		if _, labelled := cur.Parent().(*ast.LabeledStmt); labelled {
			fatal("%s: labelled select statement is not modelled", c.pos(n))
		}
		c.needVS = true
		stats["select"]++
		selID := c.newTmp("sel")
		var pre []ast.Stmt
		var clauses []ast.Stmt
		hasDefault := false
		idx := 0
		for _, cl := range n.Body.List {
			cc := cl.(*ast.CommClause)
			if cc.Comm == nil {
				hasDefault = true
				clauses = append(clauses, &ast.CaseClause{List: nil, Body: cc.Body})
				continue
			}
			chID := c.newTmp("ch")
			var body []ast.Stmt
			switch st := cc.Comm.(type) {
			case *ast.SendStmt:
				valID := c.newTmp("val")
				pre = append(pre, &ast.AssignStmt{Lhs: []ast.Expr{chID, valID}, Tok: token.DEFINE, Rhs: []ast.Expr{st.Chan, st.Value}})
				pre = append(pre, &ast.ExprStmt{X: call(sel("vsched", "SelSend"), ast.NewIdent(selID.Name), ast.NewIdent(chID.Name), ast.NewIdent(valID.Name))})
			case *ast.ExprStmt:
				u, ok := st.X.(*ast.UnaryExpr)
				if !ok || u.Op != token.ARROW {
					fatal("%s: unexpected communication clause", c.pos(st))
				}
				pre = append(pre, &ast.AssignStmt{Lhs: []ast.Expr{chID}, Tok: token.DEFINE, Rhs: []ast.Expr{u.X}})
				pre = append(pre, &ast.ExprStmt{X: call(sel("vsched", "SelRecv"), ast.NewIdent(selID.Name), ast.NewIdent(chID.Name))})
			case *ast.AssignStmt:
				u, ok := st.Rhs[0].(*ast.UnaryExpr)
				if !ok || u.Op != token.ARROW || len(st.Rhs) != 1 {
					fatal("%s: unexpected communication clause", c.pos(st))
				}
				pre = append(pre, &ast.AssignStmt{Lhs: []ast.Expr{chID}, Tok: token.DEFINE, Rhs: []ast.Expr{u.X}})
				pre = append(pre, &ast.ExprStmt{X: call(sel("vsched", "SelRecv"), ast.NewIdent(selID.Name), ast.NewIdent(chID.Name))})
				fn := "SelRecvVal"
				if len(st.Lhs) == 2 {
					fn = "SelRecvDone"
				}
				body = append(body, &ast.AssignStmt{Lhs: st.Lhs, Tok: st.Tok, Rhs: []ast.Expr{call(sel("vsched", fn), ast.NewIdent(selID.Name), ast.NewIdent(chID.Name))}})
				if st.Tok == token.DEFINE {
					// a received value that the clause body does not use must not become an "unused variable" error
					for _, l := range st.Lhs {
						if id, ok := l.(*ast.Ident); ok && id.Name != "_" {
							body = append(body, &ast.AssignStmt{Lhs: []ast.Expr{ast.NewIdent("_")}, Tok: token.ASSIGN, Rhs: []ast.Expr{ast.NewIdent(id.Name)}})
						}
					}
				}
			default:
				fatal("%s: unexpected communication clause", c.pos(cc.Comm))
			}
			clauses = append(clauses, &ast.CaseClause{List: []ast.Expr{&ast.BasicLit{Kind: token.INT, Value: strconv.Itoa(idx)}}, Body: append(body, cc.Body...)})
			idx++
		}
		def := "false"
		if hasDefault {
			def = "true"
		}
		first := &ast.AssignStmt{Lhs: []ast.Expr{selID}, Tok: token.DEFINE, Rhs: []ast.Expr{call(sel("vsched", "NewSelect"), ast.NewIdent(def))}}
		sw := &ast.SwitchStmt{Tag: call(sel("vsched", "SelWait"), ast.NewIdent(selID.Name)), Body: &ast.BlockStmt{List: clauses}}
		cur.Replace(&ast.BlockStmt{List: append(append([]ast.Stmt{first}, pre...), sw)})
		return true
	}, nil)

	// 1. import-level checks and selector rewrites
	ast.Inspect(c.file, func(n ast.Node) bool {
		se, ok := n.(*ast.SelectorExpr)
		if !ok {
			return true
		}
		id, ok := se.X.(*ast.Ident)
		if !ok {
			return true
		}
		switch c.pkgNameOf(id) {
		case "sync":
			if !syncOK[se.Sel.Name] {
				fatal("%s: sync.%s has no shim", c.pos(se), se.Sel.Name)
			}
			stats["sync-uses"]++
		case "sync/atomic":
			if !atomicOK[se.Sel.Name] {
				fatal("%s: atomic.%s has no shim", c.pos(se), se.Sel.Name)
			}
			stats["atomic-uses"]++
		case "runtime":
			if runtimeMapped[se.Sel.Name] {
				se.X = ast.NewIdent("vruntime")
				c.needVRT = true
				stats["runtime-uses"]++
			}
		case "math/rand":
			stats["rand-uses"]++
		}
		return true
	})
	for _, im := range c.file.Imports {
		p, _ := strconv.Unquote(im.Path.Value)
		repl := map[string][2]string{"sync": {"sync", "vshim/vsync"}, "sync/atomic": {"atomic", "vshim/vatomic"}, "math/rand": {"rand", "vshim/vrand"}}
		if r, ok := repl[p]; ok {
			if im.Name == nil {
				im.Name = ast.NewIdent(r[0])
			}
			im.Path.Value = strconv.Quote(r[1])
		}
	}

	// 2. statement/expression rewrites
	astutil.Apply(c.file, func(cur *astutil.Cursor) bool {
		switch n := cur.Node().(type) {
		case *ast.AssignStmt:
			// v, ok := <-ch
			if len(n.Lhs) == 2 && len(n.Rhs) == 1 {
				if u, ok := n.Rhs[0].(*ast.UnaryExpr); ok && u.Op == token.ARROW {
					n.Rhs[0] = call(sel("vsched", "Recv2"), u.X)
					c.needVS = true
					stats["chan-recv"]++
				}
			}
		case *ast.ValueSpec:
			if len(n.Names) == 2 && len(n.Values) == 1 {
				if u, ok := n.Values[0].(*ast.UnaryExpr); ok && u.Op == token.ARROW {
					n.Values[0] = call(sel("vsched", "Recv2"), u.X)
					c.needVS = true
					stats["chan-recv"]++
				}
			}
		}
		return true
	}, func(cur *astutil.Cursor) bool {
		switch n := cur.Node().(type) {
		case *ast.GoStmt:
			c.needVS = true
			stats["go-stmt"]++
			var pre []ast.Stmt
			var args []ast.Expr
			for _, a := range n.Call.Args {
				t := c.newTmp("a")
				pre = append(pre, &ast.AssignStmt{Lhs: []ast.Expr{t}, Tok: token.DEFINE, Rhs: []ast.Expr{a}})
				args = append(args, ast.NewIdent(t.Name))
			}
			fun := n.Call.Fun
			switch f := fun.(type) {
			case *ast.FuncLit, *ast.Ident:
				_ = f
			default:
				if !simpleExpr(fun) {
					fatal("%s: go statement with a computed function value is not modelled", c.pos(n))
				}
			}
			var inner ast.Expr
			if fl, ok := fun.(*ast.FuncLit); ok && len(args) == 0 && n.Call.Ellipsis == token.NoPos {
				inner = fl
			} else {
				ce := &ast.CallExpr{Fun: &ast.ParenExpr{X: fun}, Args: args}
				if n.Call.Ellipsis != token.NoPos {
					ce.Ellipsis = 1
				}
				inner = &ast.FuncLit{Type: &ast.FuncType{Params: &ast.FieldList{}}, Body: &ast.BlockStmt{List: []ast.Stmt{&ast.ExprStmt{X: ce}}}}
			}
			stmt := &ast.ExprStmt{X: call(sel("vsched", "Go"), inner)}
			if len(pre) == 0 {
				cur.Replace(stmt)
			} else {
				cur.Replace(&ast.BlockStmt{List: append(pre, stmt)})
			}
		case *ast.SendStmt:
			c.needVS = true
			stats["chan-send"]++
			cur.Replace(&ast.ExprStmt{X: call(sel("vsched", "Send"), n.Chan, n.Value)})
		case *ast.UnaryExpr:
			if n.Op == token.ARROW {
				c.needVS = true
				stats["chan-recv"]++
				cur.Replace(call(sel("vsched", "Recv"), n.X))
			}
		case *ast.CallExpr:
			if id, ok := n.Fun.(*ast.Ident); ok && c.isBuiltin(id, "close") {
				c.needVS = true
				stats["chan-close"]++
				n.Fun = sel("vsched", "Close")
			}
		case *ast.ForStmt:
			if n.Init == nil && n.Post == nil {
				c.needVS = true
				stats["loop-tick"]++
				n.Body.List = append([]ast.Stmt{&ast.ExprStmt{X: call(sel("vsched", "Tick"))}}, n.Body.List...)
			}
		case *ast.RangeStmt:
			if c.isChan(n.X) {
				c.needVS = true
				stats["chan-range"]++
				okID := c.newTmp("ok")
				var lhs ast.Expr = ast.NewIdent("_")
				tok := token.DEFINE
				var pre []ast.Stmt
				if n.Key != nil {
					lhs = n.Key
					if n.Tok == token.ASSIGN {
						tok = token.ASSIGN
						pre = append(pre, &ast.DeclStmt{Decl: &ast.GenDecl{Tok: token.VAR, Specs: []ast.Spec{&ast.ValueSpec{Names: []*ast.Ident{okID}, Type: ast.NewIdent("bool")}}}})
					}
				}
				recv := &ast.AssignStmt{Lhs: []ast.Expr{lhs, ast.NewIdent(okID.Name)}, Tok: tok, Rhs: []ast.Expr{call(sel("vsched", "Recv2"), n.X)}}
				brk := &ast.IfStmt{Cond: &ast.UnaryExpr{Op: token.NOT, X: ast.NewIdent(okID.Name)}, Body: &ast.BlockStmt{List: []ast.Stmt{&ast.BranchStmt{Tok: token.BREAK}}}}
				body := append(append(pre, recv, brk), n.Body.List...)
				cur.Replace(&ast.ForStmt{Body: &ast.BlockStmt{List: body}})
			} else if c.isMap(n.X) {
				c.rewriteMapRange(cur, n)
			}
		}
		return true
	})

	// 3. statement-level points for listed functions
	for _, d := range c.file.Decls {
		fd, ok := d.(*ast.FuncDecl)
		if !ok || fd.Body == nil {
			continue
		}
		name := fd.Name.Name
		if fd.Recv != nil && len(fd.Recv.List) == 1 {
			t := fd.Recv.List[0].Type
			if st, ok := t.(*ast.StarExpr); ok {
				t = st.X
			}
			if ix, ok := t.(*ast.IndexExpr); ok {
				t = ix.X
			}
			if id, ok := t.(*ast.Ident); ok {
				name = id.Name + "." + name
			}
		}
		full := c.pkgPath + "." + name
		if c.pointFns[full] {
			c.needVS = true
			stats["stmt-points-funcs"]++
			addPoints(fd.Body, full)
		}
	}

	if c.needVS {
		astutil.AddNamedImport(c.fset, c.file, "vsched", "vshim/vsched")
	}
	if c.needVMap {
		astutil.AddNamedImport(c.fset, c.file, "vmap", "vshim/vmap")
	}
	if c.needVRT {
		astutil.AddNamedImport(c.fset, c.file, "vruntime", "vshim/vruntime")
		if !usesPkgIdent(c.file, "runtime") {
			astutil.DeleteImport(c.fset, c.file, "runtime")
		}
	}
}

func usesPkgIdent(f *ast.File, name string) bool {
	used := false
	ast.Inspect(f, func(n ast.Node) bool {
		if se, ok := n.(*ast.SelectorExpr); ok {
			if id, ok := se.X.(*ast.Ident); ok && id.Name == name && id.Obj == nil {
				used = true
			}
		}
		return true
	})
	return used
}

func addPoints(b *ast.BlockStmt, label string) {
	var out []ast.Stmt
	for _, s := range b.List {
		out = append(out, &ast.ExprStmt{X: call(sel("vsched", "Point"), &ast.BasicLit{Kind: token.STRING, Value: strconv.Quote("stmt:" + label)})})
		out = append(out, s)
		switch x := s.(type) {
		case *ast.IfStmt:
			addPoints(x.Body, label)
			if eb, ok := x.Else.(*ast.BlockStmt); ok {
				addPoints(eb, label)
			}
		case *ast.ForStmt:
			addPoints(x.Body, label)
		case *ast.RangeStmt:
			addPoints(x.Body, label)
		case *ast.BlockStmt:
			addPoints(x, label)
		}
	}
	b.List = out
}

func isBlank(e ast.Expr) bool {
	id, ok := e.(*ast.Ident)
	return ok && id.Name == "_"
}

func (c *fileCtx) rewriteMapRange(cur *astutil.Cursor, n *ast.RangeStmt) {
	if !simpleExpr(n.X) {
		// evaluate once into a temporary in an enclosing block; impossible for labelled loops
		if _, labelled := cur.Parent().(*ast.LabeledStmt); labelled {
			fatal("%s: labelled range over a computed map expression is not modelled", c.pos(n))
		}
		tmp := c.newTmp("m")
		assign := &ast.AssignStmt{Lhs: []ast.Expr{tmp}, Tok: token.DEFINE, Rhs: []ast.Expr{n.X}}
		n.X = ast.NewIdent(tmp.Name)
		c.buildMapRange(n)
		cur.Replace(&ast.BlockStmt{List: []ast.Stmt{assign, n}})
		return
	}
	c.buildMapRange(n)
}

func (c *fileCtx) buildMapRange(n *ast.RangeStmt) {
	c.needVMap = true
	stats["map-range"]++
	m := n.X
	keysCall := call(sel("vmap", "Keys"), m)
	hasKey := n.Key != nil && !isBlank(n.Key)
	hasVal := n.Value != nil && !isBlank(n.Value)
	var keyExpr ast.Expr
	var pre []ast.Stmt
	okID := c.newTmp("ok")
	if n.Tok == token.ASSIGN {
		// for k, v = range m: iterate with a fresh key, assign to the outer variables
		kid := c.newTmp("k")
		keyExpr = ast.NewIdent(kid.Name)
		if hasKey {
			pre = append(pre, &ast.AssignStmt{Lhs: []ast.Expr{n.Key}, Tok: token.ASSIGN, Rhs: []ast.Expr{ast.NewIdent(kid.Name)}})
		}
		n.Key = ast.NewIdent("_")
		n.Value = kid
		n.Tok = token.DEFINE
		if hasVal {
			panic("unsupported: for k, v = range map with value")
		}
		n.X = keysCall
		n.Body.List = append(pre, n.Body.List...)
		return
	}
	var valLHS ast.Expr = ast.NewIdent("_")
	if hasVal {
		valLHS = n.Value
	}
	if hasKey {
		keyExpr = n.Key
	} else {
		kid := c.newTmp("k")
		keyExpr = kid
	}
	kname := keyExpr.(*ast.Ident).Name
	// the key must still be present (deleted-during-range semantics)
	lookup := &ast.AssignStmt{Lhs: []ast.Expr{valLHS, ast.NewIdent(okID.Name)}, Tok: token.DEFINE, Rhs: []ast.Expr{&ast.IndexExpr{X: m, Index: ast.NewIdent(kname)}}}
	skip := &ast.IfStmt{Cond: &ast.UnaryExpr{Op: token.NOT, X: ast.NewIdent(okID.Name)}, Body: &ast.BlockStmt{List: []ast.Stmt{&ast.BranchStmt{Tok: token.CONTINUE}}}}
	n.Key = ast.NewIdent("_")
	n.Value = ast.NewIdent(kname)
	n.X = keysCall
	n.Body.List = append([]ast.Stmt{lookup, skip}, n.Body.List...)
}

func main() {
	repo := flag.String("repo", "/repo", "repository root")
	out := flag.String("out", "/verif/.work/instr", "output directory")
	points := flag.String("points", "/verif/tools/instr/points.txt", "functions that get statement-level points")
	flag.Parse()

	pointFns := map[string]bool{}
	if b, err := os.ReadFile(*points); err == nil {
		for _, l := range strings.Split(string(b), "\n") {
			l = strings.TrimSpace(l)
			if l != "" && !strings.HasPrefix(l, "#") {
				pointFns[l] = true
			}
		}
	}

	cfg := &packages.Config{
		Mode:       packages.NeedName | packages.NeedFiles | packages.NeedCompiledGoFiles | packages.NeedSyntax | packages.NeedTypes | packages.NeedTypesInfo | packages.NeedImports | packages.NeedDeps | packages.NeedModule,
		Dir:        *repo,
		Env:        append(os.Environ(), "GOFLAGS=-mod=mod", "GOPROXY=off", "GOSUMDB=off", "GOTOOLCHAIN=local"),
		BuildFlags: []string{"-tags", "verif"},
	}
	pats := []string{"./model3d", "./model2d", "./render3d", "./toolbox3d", "./numerical", "./fileformats", "github.com/unixpickle/essentials"}
	pkgs, err := packages.Load(cfg, pats...)
	if err != nil {
		fatal("load: %v", err)
	}
	if packages.PrintErrors(pkgs) > 0 {
		fatal("packages have errors")
	}
	os.RemoveAll(*out)
	for _, p := range pkgs {
		var dstDir string
		if p.PkgPath == "github.com/unixpickle/essentials" {
			dstDir = filepath.Join(*out, "essentials")
		} else {
			dstDir = filepath.Join(*out, "repo", strings.TrimPrefix(p.PkgPath, "github.com/unixpickle/model3d/"))
		}
		if err := os.MkdirAll(dstDir, 0o755); err != nil {
			fatal("%v", err)
		}
		for i, f := range p.Syntax {
			name := p.CompiledGoFiles[i]
			c := &fileCtx{fset: p.Fset, info: p.TypesInfo, file: f, pkgPath: p.PkgPath, pointFns: pointFns}
			c.rewrite()
			var buf bytes.Buffer
			if err := format.Node(&buf, p.Fset, f); err != nil {
				fatal("print %s: %v", name, err)
			}
			if err := os.WriteFile(filepath.Join(dstDir, filepath.Base(name)), buf.Bytes(), 0o644); err != nil {
				fatal("%v", err)
			}
			stats["files"]++
		}
	}
	// module files
	gomod, err := os.ReadFile(filepath.Join(*repo, "go.mod"))
	if err != nil {
		fatal("%v", err)
	}
	gm := strings.Replace(string(gomod), "\ngo 1.18\n", "\ngo 1.21\n", 1)
	gm += "\nrequire vshim v0.0.0\n"
	must(os.WriteFile(filepath.Join(*out, "repo", "go.mod"), []byte(gm), 0o644))
	must(os.WriteFile(filepath.Join(*out, "essentials", "go.mod"), []byte("module github.com/unixpickle/essentials\n\ngo 1.21\n\nrequire vshim v0.0.0\n"), 0o644))
	harness := fmt.Sprintf(`module verif

go 1.21

require (
	github.com/unixpickle/model3d v0.0.0
	github.com/unixpickle/essentials v1.3.0
	vshim v0.0.0
)

replace github.com/unixpickle/model3d => %s
replace github.com/unixpickle/essentials => %s
replace vshim => /verif/shim
`, filepath.Join(*out, "repo"), filepath.Join(*out, "essentials"))
	must(os.WriteFile(filepath.Join(*out, "go.mod"), []byte(harness), 0o644))
	sum, _ := os.ReadFile(filepath.Join(*repo, "go.sum"))
	must(os.WriteFile(filepath.Join(*out, "go.sum"), sum, 0o644))
	var keys []string
	for k := range stats {
		keys = append(keys, k)
	}
	sortStrings(keys)
	var sb strings.Builder
	for _, k := range keys {
		fmt.Fprintf(&sb, "%s=%d ", k, stats[k])
	}
	fmt.Println("instr:", sb.String())
	must(os.WriteFile(filepath.Join(*out, "stats.txt"), []byte(sb.String()+"\n"), 0o644))
}

func must(err error) {
	if err != nil {
		fatal("%v", err)
	}
}

func sortStrings(s []string) {
	for i := range s {
		for j := i + 1; j < len(s); j++ {
			if s[j] < s[i] {
				s[i], s[j] = s[j], s[i]
			}
		}
	}
}
