#!/bin/bash
# tools/seed_eval.sh <seed-name> <worktree> <check-id> [tier]
# Confirms a seeded change in its scratch worktree (patch applied there already: demo fails with it, passes
# without it, touched packages' tests pass), stores it under /verif/seeded/<name>/, then applies it to /repo,
# runs the named check and restores /repo.
export GOFLAGS=-mod=mod GOPROXY=off GOSUMDB=off GOTOOLCHAIN=local
name=$1; wt=$2; chk=$3; tier=${4:-quick}
out=/verif/seeded/$name
mkdir -p $out && cp -r $wt/_out/patch.diff $wt/_out/demo $wt/_out/meta.json $out/ 2>/dev/null
cd $wt || exit 2
pkgs=$(grep "^+++ b/" $out/patch.diff | sed "s#+++ b/##" | grep "\.go$" | xargs -n1 dirname | sort -u)
demo=$(ls $out/demo/*_test.go 2>/dev/null | head -1)
log=$out/confirm.log; : > $log
run_demo() { # $1 = package dir
  cp $demo $1/zz_seed_demo_test.go
  (cd $wt && go test -vet=off -count=1 -run 'TestC[0-9][0-9]' ./$1/ ) >> $log 2>&1; rc=$?
  rm -f $1/zz_seed_demo_test.go
  return $rc
}
demopkg=$(grep -o 'model3d\|model2d\|render3d\|toolbox3d\|numerical\|fileformats' $out/demo/README.txt | head -1)
[ -z "$demopkg" ] && demopkg=$(echo $pkgs | awk '{print $1}')
echo "== demo with patch (package $demopkg)" >> $log
if run_demo $demopkg; then echo "SEED $name: demo PASSES with patch (bad seed)"; fi
echo "== existing tests with patch: $pkgs" >> $log
for p in $pkgs; do (go test -vet=off -count=1 ./$p/ >> $log 2>&1) || echo "SEED $name: existing tests of $p FAIL with patch (bad seed)"; done
# (not `git stash`: the stash stack is shared by all worktrees of a repository, so two evaluations running side
# by side would pop each other's changes)
git apply -R $out/patch.diff || { echo "SEED $name: cannot reverse the patch in the worktree"; exit 2; }
echo "== demo without patch" >> $log
run_demo $demopkg || echo "SEED $name: demo FAILS without patch (bad seed)"
git apply $out/patch.diff || { echo "SEED $name: cannot re-apply the patch in the worktree"; exit 2; }
# now the check
if [ "$SEED_MODE" = overlay ]; then
  # build the check with the changed files overlaid on /repo (leaves /repo untouched; the instrumenter reads
  # the worktree through VERIF_REPO; scratch and output directories are private to this evaluation)
  lc=$(echo $chk | tr 'A-Z' 'a-z')
  ov=/tmp/seed_ov_$name.json
  python3 - "$out/patch.diff" "$wt" > $ov <<'PY'
import sys, json, re
files = [l[6:].strip() for l in open(sys.argv[1]) if l.startswith('+++ b/') and l.strip().endswith('.go')]
print(json.dumps({"Replace": {"/repo/" + f: sys.argv[2] + "/" + f for f in files}}))
PY
  export VERIF_REPO=$wt VERIF_WORK=/tmp/seedwork_$name VERIF_OUT=/tmp/seedout_$name VERIF_GOFLAGS="-overlay=$ov"
  mkdir -p $VERIF_WORK $VERIF_OUT
  cd /verif && ./run.sh $chk $tier > $out/check_$chk.log 2>&1; rc=$?
  rm -rf $VERIF_WORK $VERIF_OUT $ov
else
  git -C /repo apply $out/patch.diff || { echo "SEED $name: patch does not apply to /repo"; exit 2; }
  cd /verif && ./run.sh $chk $tier > $out/check_$chk.log 2>&1; rc=$?
  git -C /repo checkout -- .
fi
echo "SEED $name: check $chk $tier exit=$rc $(grep -c '^VIOLATION' $out/check_$chk.log) VIOLATION lines; $(tail -1 $out/check_$chk.log | cut -c1-160)"
