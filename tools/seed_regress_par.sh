#!/bin/bash
# tools/seed_regress_par.sh [tier] [jobs] [skip-file]: tools/seed_regress.sh for every stored seed, <jobs> seeds at a time
# (each in its own scratch worktree and work directories); prints the same CAUGHT / MISSED / STALE / ERROR lines.
tier=${1:-quick}; jobs=${2:-4}; skip=${3:-/dev/null}
cd /verif || exit 2
ls seeded | grep -E '^C[0-9][0-9]-' | grep -v -x -F -f $skip | xargs -P $jobs -I{} sh -c "tools/seed_regress.sh $tier '^{}\$' 2>&1 | grep -E '^(CAUGHT|MISSED|STALE|ERROR)'"
