NOTES = "Every check is ./run.sh <id> <tier>; it rebuilds its harness against /repo's working tree (go build, replace => /repo) on every call. known_findings.txt lists open/fixed findings."
ENGINES = [
 {"name": "bfs", "path": "checks/c09, lib/meshq", "serves_properties": ["C09"], "kind_free_text": "explicit-state breadth-first search over operation histories on the real objects (successor = replay shortest history on a fresh instance + one op), canonical state hashing, differential reference model"},
 {"name": "enum", "path": "lib/ev, lib/topo, lib/lat", "serves_properties": ["C01","C02","C03","C04","C05","C06","C07","C08","C10","C11","C14","C15","C17","C18","C19","C20"], "kind_free_text": "small-scope exhaustive enumerators over lattice bit assignments / parameter products with independent reference oracles"},
]
ENGINE = {"C09": "bfs"}
NA = {}
CHECKS = {
 "C09": ("model_checking", "explicit-state BFS over operation histories executed on the real maps/meshes, differential against a Go map / face-list reference after every transition",
   "Breadth-first search to closure over histories of Store/Delete/Append|Add on all 12 coordinate-keyed map types (keys include a verified fast-hash collision and both signed zeros) and of Add/Remove/index-touch/AddMesh/Copy on 3D and 2D meshes over a 7-face pool; every transition runs on the real object and on the reference, the complete query set is compared after each, every mesh-returning method is evaluated in every reachable state, and the library's in-place editors are checked for a stale index on the catalogue. States are deduplicated by stored keys (bit-exact), values, fast/slow mode and index-built bit.",
   "Reference = ordinary Go map and linear scans; the hooks (build tag verif) only read fast/slow mode, index identity and the hash. Histories beyond the value caps (lists longer than 2, counters above 3) are not explored.", "DESIGN.md section 4 C09"),
 "C01": ("exploration", "bounded exhaustive enumeration of lattice bit assignments and generator parameter products; independent topology + winding-number oracle",
   "Every inside/outside assignment of 3x2x2 (quick) / 3x3x2 (thorough) inner lattice blocks in all axis orientations, every 2D block up to 4x4, every bitmap up to 4x4 (5x4 thorough), every subset of 2x2x2/3x2x2 box grids, every 3x3 height grid over 3 levels, and the full parameter product of the primitive generators is meshed by the real code and judged by an independent manifold/orientation/winding checker. By the finite-quotient argument of DESIGN.md (every vertex star of marching cubes lives in a 3x3x2 block) the thorough tier covers the property's whole quantifier for marching cubes.",
   "Trusts lib/topo (200 lines, independent of the library) and coordinate-equality vertex identity; between-lattice behaviour of solids is irrelevant to topology.", "DESIGN.md section 4 C01"),
}
