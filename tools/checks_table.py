NOTES = "Every check is ./run.sh <id> <tier>; it rebuilds its harness against /repo's working tree (go build, replace => /repo) on every call. known_findings.txt lists open/fixed findings."
ENGINES = [
 {"name": "enum", "path": "lib/ev, lib/topo, lib/lat", "serves_properties": ["C01"], "kind_free_text": "small-scope exhaustive enumerators over lattice bit assignments / parameter products with independent reference oracles"},
]
ENGINE = {}
NA = {}
CHECKS = {
 "C01": ("exploration", "bounded exhaustive enumeration of lattice bit assignments and generator parameter products; independent topology + winding-number oracle",
   "Every inside/outside assignment of 3x2x2 (quick) / 3x3x2 (thorough) inner lattice blocks in all axis orientations, every 2D block up to 4x4, every bitmap up to 4x4 (5x4 thorough), every subset of 2x2x2/3x2x2 box grids, every 3x3 height grid over 3 levels, and the full parameter product of the primitive generators is meshed by the real code and judged by an independent manifold/orientation/winding checker. By the finite-quotient argument of DESIGN.md (every vertex star of marching cubes lives in a 3x3x2 block) the thorough tier covers the property's whole quantifier for marching cubes.",
   "Trusts lib/topo (200 lines, independent of the library) and coordinate-equality vertex identity; between-lattice behaviour of solids is irrelevant to topology.", "DESIGN.md section 4 C01"),
}
