#!/bin/bash
# tools/run_all.sh [quick|thorough] [Cxx ...]: runs every registered check (or the named ones) sequentially on the current /repo tree and prints one line each.
tier=${1:-quick}
shift
only="$*"
cd /verif || exit 2
rc=0
for id in $(python3 -c "import json; print(' '.join(c['property_id'] for c in json.load(open('MANIFEST.json'))['checks']))"); do
  if [ -n "$only" ] && ! echo " $only " | grep -q " $id "; then continue; fi
  s=$(date +%s)
  out=$(./run.sh $id $tier 2>&1); e=$?
  echo "$id exit=$e $(($(date +%s)-s))s $(echo "$out" | grep -c '^VIOLATION') violation-lines; $(echo "$out" | tail -1 | cut -c1-150)"
  [ $e -ne 0 ] && rc=1
done
exit $rc
