#!/bin/bash
# regenerates checks/c09/mesh2.go (2D mesh BFS) from mesh3.go
cd /verif/checks/c09 && sed -e 's/model3d\.XYZ(1, 0, 0), model3d\.XYZ(0, 1, 0)/model2d.XY(1, 0), model2d.XY(0.5, 1)/' \
 -e 's/model3d\.XYZ(0, 0, 0), model3d\.XYZ(negZero, negZero, negZero)/model2d.XY(0, 0), model2d.XY(negZero, negZero)/' \
 -e 's/model3d\.XYZ(0, 0, 1), model3d\.XYZ(1, 1, 1)/model2d.XY(2, 2), model2d.XY(3, 1)/' \
 -e 's/model3d\.XYZ(7, 7, 7)/model2d.XY(7, 7)/' \
 -e 's/{A, B, C}, {B, A, D}, {A, B, C}, {A, A, B}, {Ap, B, C}, {Z, A, C}, {NZ, B, D},/{A, B}, {B, C}, {A, B}, {A, A}, {Ap, B}, {Z, A}, {NZ, D},/' \
 -e 's/model3d\.XYZ(1, 2, 3)/model2d.XY(1, 2)/g' \
 -e 's/\&model3d\.Triangle{g(t\[0\]), g(t\[1\]), g(t\[2\])}/\&model2d.Segment{g(t[0]), g(t[1])}/' \
 -e 's/\&model3d\.Triangle{t\[1\], t\[0\], t\[2\]}/\&model2d.Segment{t[1], t[0]}/' \
 -e 's/model3d\.Coord3D/model2d.Coord/g; s/model3d\.Triangle/model2d.Segment/g; s/model3d\./model2d./g' \
 -e 's/newPool3/newPool2/g; s/pool3/pool2/g; s/meshState3/meshState2/g; s/collide3/collide2/g; s/runMesh3/runMesh2/g; s/derived3/derived2/g; s/bfsMesh3/bfsMesh2/g; s/mapFaces3/mapFaces2/g; s/bits3/bits2/g; s/Check3/Check2/g' \
 -e 's/meshq\.FaceMultiset3(got\.TriangleSlice(), cyclic), meshq\.FaceMultiset3(want, cyclic)/meshq.SegMultiset2(got.SegmentSlice()), meshq.SegMultiset2(want)/' \
 -e 's/TriangleSlice/SegmentSlice/g' \
 -e 's/"3d|/"2d|/; s/meshCase{3,/meshCase{2,/g; s/mesh3d\//mesh2d\//g' \
 -e '/^type meshOp struct/,/^}/d' -e '/^type meshCase struct/,/^}/d' -e '/^func classifyMesh/,/^}/d' \
 mesh3.go > mesh2.go && sed -i 's#"github.com/unixpickle/model3d/model3d"#"github.com/unixpickle/model3d/model2d"#' mesh2.go
