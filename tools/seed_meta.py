#!/usr/bin/env python3
"""tools/seed_meta.py <seed-name> <check-id> <status text>: records in seeded/<name>/meta.json what the checks did with the change."""
import json, sys, os
name, chk, status = sys.argv[1], sys.argv[2], sys.argv[3]
p = f"/verif/seeded/{name}/meta.json"
m = json.load(open(p))
log = f"/verif/seeded/{name}/check_{chk}.log"
last = open(log).read().strip().splitlines()[-1][:200] if os.path.exists(log) else ""
m.setdefault("verif_checks_run", {})[f"check_{chk}.log"] = last
m.setdefault("detection", {})[chk] = status
m["confirmed"] = "tools/seed_eval.sh: demo fails with patch, passes without; touched packages' tests pass with patch (confirm.log)"
json.dump(m, open(p, "w"), indent=1)
