#!/bin/bash
# tools/seed_regress.sh [tier] [name-pattern]: re-runs every stored seeded change (seeded/<Cxx-name>/patch.diff)
# against its check (and against extra checks named in seeded/<name>/also_checks) and prints one line each:
#   CAUGHT / MISSED / STALE (patch no longer applies to /repo's HEAD) / ERROR.
# Nothing is changed in /repo: each patch is applied in a scratch worktree under /tmp, the check is built with the
# changed files overlaid and reads the worktree through VERIF_REPO (see tools/seed_eval.sh, SEED_MODE=overlay).
# A regression run of the checks themselves: after editing a check, every seed it caught before must still be caught.
export GOFLAGS=-mod=mod GOPROXY=off GOSUMDB=off GOTOOLCHAIN=local
tier=${1:-quick}; pat=${2:-.}
cd /verif || exit 2
missed=0
for d in seeded/C[0-9][0-9]-*; do
  name=$(basename $d)
  echo "$name" | grep -q -E "$pat" || continue
  [ -f $d/patch.diff ] || continue
  chks=$(echo $name | cut -c1-3)
  [ -f $d/also_checks ] && chks="$chks $(cat $d/also_checks)"
  wt=/tmp/regwt-$name
  git -C /repo worktree remove --force $wt >/dev/null 2>&1
  git -C /repo worktree add -q --detach $wt HEAD || { echo "ERROR $name: worktree"; continue; }
  if ! git -C $wt apply $OLDPWD/$d/patch.diff 2>/dev/null && ! git -C $wt apply /verif/$d/patch.diff 2>/dev/null && ! git -C $wt apply --3way /verif/$d/patch.diff 2>/dev/null; then
    echo "STALE  $name: patch does not apply to HEAD"
    git -C /repo worktree remove --force $wt; continue
  fi
  ov=/tmp/regov-$name.json
  python3 - /verif/$d/patch.diff $wt > $ov <<'PY'
import sys, json
files = [l[6:].strip() for l in open(sys.argv[1]) if l.startswith('+++ b/') and l.strip().endswith('.go')]
print(json.dumps({"Replace": {"/repo/" + f: sys.argv[2] + "/" + f for f in files}}))
PY
  for chk in $chks; do
    export VERIF_REPO=$wt VERIF_WORK=/tmp/regwork-$name VERIF_OUT=/tmp/regout-$name VERIF_GOFLAGS="-overlay=$ov"
    mkdir -p $VERIF_WORK $VERIF_OUT
    ./run.sh $chk $tier > /tmp/reglog-$name-$chk.txt 2>&1; rc=$?
    nv=$(grep -c '^VIOLATION' /tmp/reglog-$name-$chk.txt)
    if [ $rc -eq 1 ] && [ $nv -gt 0 ]; then echo "CAUGHT $name by $chk ($(grep -m1 '^VIOLATION' /tmp/reglog-$name-$chk.txt | sed 's/.*key=//' | cut -c1-90))"
    elif [ $rc -eq 0 ]; then echo "MISSED $name by $chk"; missed=$((missed+1))
    else echo "ERROR  $name by $chk: exit $rc $(tail -1 /tmp/reglog-$name-$chk.txt | cut -c1-120)"; fi
    rm -rf $VERIF_WORK $VERIF_OUT /tmp/reglog-$name-$chk.txt
    unset VERIF_REPO VERIF_WORK VERIF_OUT VERIF_GOFLAGS
  done
  rm -f $ov
  git -C /repo worktree remove --force $wt
done
echo "missed=$missed"
