#!/usr/bin/env python3
"""Regenerates /verif/MANIFEST.json from the table below (checks that exist under checks/)."""
import json, os, subprocess
ROOT = "/verif"
CHECKS = {
 # id: (category, technique, text, note, design_ref)
}
exec(open(os.path.join(ROOT, "tools", "checks_table.py")).read())
props = [json.loads(l) for l in open(os.path.join(ROOT, "properties.jsonl"))]
checks, na = [], []
for p in props:
    pid = p["id"]
    lc = pid.lower()
    if pid in CHECKS and os.path.isdir(os.path.join(ROOT, "checks", lc)):
        cat, tech, text, note, ref = CHECKS[pid]
        checks.append({
            "property_id": pid,
            "quick_cmd": f"./run.sh {pid} quick",
            "thorough_cmd": f"./run.sh {pid} thorough",
            "evidence_file": f"/verif/evidence/{pid}.json",
            "replay_cmd_template": f"./run.sh {pid} --replay {{path}}",
            "engine": ENGINE.get(pid, "enum"),
            "level_claimed": {"category": cat, "text": text, "design_ref": ref},
            "level_note": note,
            "technique": tech,
        })
    else:
        na.append({"property_id": pid, "reason": NA.get(pid, "check not built yet in this round (planned, see DESIGN.md section 4); nothing is claimed for it")})
try:
    hooks = subprocess.check_output(["git", "-C", "/repo", "log", "--format=%H %s", "db7deb6..HEAD"], text=True).splitlines()
except Exception:
    hooks = []
hook_commits = [l.split()[0] for l in hooks if " verif hook" in l or "verif:" in l]
m = {
 "version": 1,
 "setup_cmd": "./setup.sh",
 "hooks": {"guard": "verif", "enable": "go build -tags verif (checks also build an instrumented copy of the packages under /verif/.work for schedule exploration)",
           "baseline_off_cmd": "cd /repo && GOFLAGS=-mod=mod go test -vet=off -count=1 -timeout 25m ./...",
           "source_commits": hook_commits, "add_only": True},
 "engines": ENGINES,
 "checks": checks,
 "not_applicable": na,
 "notes": NOTES,
}
json.dump(m, open(os.path.join(ROOT, "MANIFEST.json"), "w"), indent=1)
print("checks:", len(checks), "not_applicable:", len(na))
