#!/usr/bin/env python3
"""tools/audit_exports.py: lists exported functions and methods of the files the properties are anchored in whose
names do not occur anywhere in the check sources (checks/, lib/). A name that does occur may still be unjudged; a name
that does not is certainly never driven directly. Evaluation aid, not a deciding step."""
import json, re, os, glob
props = [json.loads(l) for l in open('/verif/properties.jsonl')]
src = ''
for f in glob.glob('/verif/checks/**/*.go', recursive=True) + glob.glob('/verif/lib/**/*.go', recursive=True):
    src += open(f).read()
files = {}
for d in props:
    for f in d['anchors']['files']:
        files.setdefault(f, []).append(d['id'])
for f, ids in sorted(files.items()):
    p = '/repo/' + f
    if not os.path.exists(p) or f.endswith('_test.go'):
        continue
    miss = []
    for l in open(p):
        m = re.match(r'^func (\((\w+) \*?(\w+)(\[[^\]]*\])?\) )?([A-Z]\w*)', l)
        if not m:
            continue
        recv, name = m.group(3), m.group(5)
        if recv and not recv[0].isupper():
            continue
        if name in ('Min', 'Max', 'String', 'Len', 'Less', 'Swap'):
            continue
        if not re.search(r'\b' + name + r'\b', src):
            miss.append((recv + '.' if recv else '') + name)
    if miss:
        print(f, ids, ':', ', '.join(miss))
