// Package ref holds reference formulations (signed distance in reduced
// coordinates, membership, ray/surface crossings by marching) of the library's
// primitive shapes, written independently of model3d/shapes.go, plus the
// parameter alphabets the checks enumerate.
package ref

import (
	"fmt"
	"math"

	"github.com/unixpickle/model3d/model2d"
	"github.com/unixpickle/model3d/model3d"
)

type C3 = model3d.Coord3D
type C2 = model2d.Coord

// Shape3 pairs a library primitive with its reference signed distance
// (positive inside, like the library).
type Shape3 struct {
	Name    string
	Obj     interface{}
	SDF     func(p C3) float64
	Feature float64 // smallest length scale of the shape
	Center  C3
	Extent  float64
}

func segDist3(p, a, b C3) float64 {
	ab := b.Sub(a)
	t := p.Sub(a).Dot(ab) / ab.Dot(ab)
	t = math.Max(0, math.Min(1, t))
	return p.Dist(a.Add(ab.Scale(t)))
}

func segDist2(px, py, ax, ay, bx, by float64) float64 {
	dx, dy := bx-ax, by-ay
	t := ((px-ax)*dx + (py-ay)*dy) / (dx*dx + dy*dy)
	t = math.Max(0, math.Min(1, t))
	return math.Hypot(px-(ax+t*dx), py-(ay+t*dy))
}

// boxSDF2: positive inside the axis-aligned box [-hx,hx]x[-hy,hy] centred at 0.
func boxSDF2(x, y, hx, hy float64) float64 {
	qx, qy := math.Abs(x)-hx, math.Abs(y)-hy
	out := math.Hypot(math.Max(qx, 0), math.Max(qy, 0))
	in := math.Min(math.Max(qx, qy), 0)
	return -(out + in)
}

func Sphere(c C3, r float64) Shape3 {
	return Shape3{fmt.Sprintf("Sphere(c=%v,r=%g)", c, r), &model3d.Sphere{Center: c, Radius: r},
		func(p C3) float64 { return r - p.Dist(c) }, r, c, r}
}

func Rect(min, max C3) Shape3 {
	ctr := min.Mid(max)
	h := max.Sub(min).Scale(0.5)
	return Shape3{fmt.Sprintf("Rect(%v,%v)", min, max), model3d.NewRect(min, max),
		func(p C3) float64 {
			q := C3{X: math.Abs(p.X-ctr.X) - h.X, Y: math.Abs(p.Y-ctr.Y) - h.Y, Z: math.Abs(p.Z-ctr.Z) - h.Z}
			out := math.Sqrt(sq(math.Max(q.X, 0)) + sq(math.Max(q.Y, 0)) + sq(math.Max(q.Z, 0)))
			in := math.Min(math.Max(q.X, math.Max(q.Y, q.Z)), 0)
			return -(out + in)
		}, math.Min(h.X, math.Min(h.Y, h.Z)) * 2, ctr, h.Norm()}
}

func sq(x float64) float64 { return x * x }

func Capsule(p1, p2 C3, r float64) Shape3 {
	return Shape3{fmt.Sprintf("Capsule(%v,%v,r=%g)", p1, p2, r), &model3d.Capsule{P1: p1, P2: p2, Radius: r},
		func(p C3) float64 { return r - segDist3(p, p1, p2) }, r, p1.Mid(p2), p1.Dist(p2)/2 + r}
}

// axial returns the coordinate along the axis from a (0 at a) and the radial distance.
func axial(p, a, b C3) (z, rho float64) {
	ax := b.Sub(a)
	h := ax.Norm()
	u := ax.Scale(1 / h)
	d := p.Sub(a)
	z = d.Dot(u)
	rho = d.Sub(u.Scale(z)).Norm()
	return
}

func Cylinder(p1, p2 C3, r float64) Shape3 {
	h := p1.Dist(p2)
	return Shape3{fmt.Sprintf("Cylinder(%v,%v,r=%g)", p1, p2, r), &model3d.Cylinder{P1: p1, P2: p2, Radius: r},
		func(p C3) float64 {
			z, rho := axial(p, p1, p2)
			// rectangle [-r,r] x [0,h] in (rho,z); rho >= 0 so the mirror half is harmless
			return boxSDF2(rho, z-h/2, r, h/2)
		}, math.Min(r, h), p1.Mid(p2), math.Hypot(h/2, r)}
}

func Cone(tip, base C3, r float64) Shape3 {
	h := tip.Dist(base)
	return Shape3{fmt.Sprintf("Cone(tip=%v,base=%v,r=%g)", tip, base, r), &model3d.Cone{Tip: tip, Base: base, Radius: r},
		func(p C3) float64 {
			z, rho := axial(p, tip, base) // z = 0 at the tip, h at the base
			d := math.Min(segDist2(rho, z, 0, 0, r, h), segDist2(rho, z, 0, h, r, h))
			if z >= 0 && z <= h && rho <= r*z/h {
				return d
			}
			return -d
		}, math.Min(r, h), tip.Mid(base), math.Hypot(h/2, r)}
}

func Torus(c, axis C3, inner, outer float64) Shape3 {
	u := axis.Normalize()
	return Shape3{fmt.Sprintf("Torus(c=%v,axis=%v,inner=%g,outer=%g)", c, axis, inner, outer),
		&model3d.Torus{Center: c, Axis: axis, InnerRadius: inner, OuterRadius: outer},
		func(p C3) float64 {
			d := p.Sub(c)
			z := d.Dot(u)
			rho := d.Sub(u.Scale(z)).Norm()
			return inner - math.Hypot(rho-outer, z)
		}, inner, c, outer + inner}
}

// Axes is the direction alphabet: axis-aligned, diagonal, generic, near-degenerate.
var Axes = []C3{
	{X: 1}, {Y: 1}, {Z: 1}, {Z: -1},
	{X: 1, Y: 1}, {Y: 1, Z: -1}, {X: 1, Y: 1, Z: 1}, {X: -1, Y: 2, Z: 0.5},
	{X: 1, Y: 1e-3}, {X: 1e-3, Y: 1, Z: 1}, {X: 0.3, Y: -0.2, Z: 0.9},
	// tilted away from a coordinate axis by less than any "is it axis-aligned" threshold one might be tempted to use
	{X: 1, Y: 8e-6}, {X: 2e-6, Y: -1e-7, Z: 1},
}

// Shapes3 is the primitive alphabet. full adds more parameter combinations.
func Shapes3(full bool) []Shape3 { return Shapes3Scaled(full, 1) }

// Shapes3Scaled is the same alphabet with every length (centres, radii, lengths, box sizes) multiplied by k.
// With k a power of two the scaled shapes are exact images of the unit-scale ones, so any difference in
// behaviour comes from absolute thresholds in the code under test.
func Shapes3Scaled(full bool, k float64) []Shape3 {
	var out []Shape3
	centers := []C3{{}, C3{X: 1, Y: -2, Z: 0.5}.Scale(k)}
	radii := []float64{0.5 * k, 2 * k}
	lengths := []float64{0.6 * k, 3 * k}
	axes := Axes
	if !full {
		centers = centers[1:]
		axes = []C3{{Z: 1}, {X: 1, Y: 1}, {X: -1, Y: 2, Z: 0.5}, {X: 1, Y: 1e-3}, {X: 0.3, Y: -0.2, Z: 0.9}, {X: 1, Y: 8e-6}}
	}
	for _, c := range centers {
		for _, r := range radii {
			out = append(out, Sphere(c, r))
		}
		out = append(out, Rect(c.Sub(C3{X: 1, Y: 0.5, Z: 2}.Scale(k)), c.Add(C3{X: 0.5, Y: 1.5, Z: 0.25}.Scale(k))))
		out = append(out, Rect(c, c.Add(C3{X: 3, Y: 0.1, Z: 1}.Scale(k))))
		for ai, ax := range axes {
			for _, r := range radii {
				for _, l := range lengths {
					p2 := c.Add(ax.Normalize().Scale(l))
					out = append(out, Capsule(c, p2, r), Cylinder(c, p2, r), Cone(c, p2, r))
				}
			}
			// the axis is a direction, not a unit vector: longer and shorter than 1 alternately
			axScale := 2.5
			if ai%2 == 1 {
				axScale = 0.25
			}
			out = append(out, Torus(c, ax, 0.3*k, 1.2*k), Torus(c, ax.Scale(axScale), 0.9*k, 1*k))
		}
	}
	if k != 1 {
		for i := range out {
			out[i].Name += fmt.Sprintf("@x%g", k)
		}
	}
	return out
}

// Grad is the central-difference gradient of f at p.
func Grad(f func(C3) float64, p C3, h float64) C3 {
	return C3{
		X: (f(p.Add(C3{X: h})) - f(p.Sub(C3{X: h}))) / (2 * h),
		Y: (f(p.Add(C3{Y: h})) - f(p.Sub(C3{Y: h}))) / (2 * h),
		Z: (f(p.Add(C3{Z: h})) - f(p.Sub(C3{Z: h}))) / (2 * h),
	}
}

// SmoothNormal returns the outward unit normal at the boundary point nearest
// to p according to the reference field, and whether the field is smooth there
// (p away from the medial axis, nearest point away from edges/rims/apex).
func SmoothNormal(f func(C3) float64, p C3, scale, feature float64) (n, nearest C3, smooth bool) {
	h := 1e-6 * scale
	g := Grad(f, p, h)
	if math.Abs(g.Norm()-1) > 1e-3 {
		return C3{}, C3{}, false
	}
	n = g.Scale(-1 / g.Norm())
	// the query itself must not sit next to the medial axis (a symmetry axis a few h away): there the direction
	// of the gradient turns over a distance comparable to the difference step, and the estimate depends on h
	for _, k := range []float64{10, 100} {
		gk := Grad(f, p, k*h)
		if math.Abs(gk.Norm()-1) > 1e-3 || gk.Scale(-1/gk.Norm()).Dist(n) > 2e-4 {
			return n, C3{}, false
		}
	}
	d := f(p)
	nearest = p.Add(n.Scale(d))
	if math.Abs(f(nearest)) > 1e-5*scale {
		return n, nearest, false
	}
	// consistent gradients around the nearest point, at two scales
	for _, e := range []float64{1e-3 * scale, 2e-2 * scale} {
		for _, q := range []C3{nearest.Add(n.Scale(e)), nearest.Sub(n.Scale(e))} {
			g2 := Grad(f, q, h)
			if math.Abs(g2.Norm()-1) > 1e-3 || g2.Scale(-1/g2.Norm()).Dist(n) > 1e-3 {
				return n, nearest, false
			}
		}
		// and sideways
		b1, b2 := n.OrthoBasis()
		for _, q := range []C3{nearest.Add(b1.Scale(e)), nearest.Sub(b1.Scale(e)), nearest.Add(b2.Scale(e)), nearest.Sub(b2.Scale(e))} {
			g2 := Grad(f, q, h)
			// on a smooth surface of curvature radius >= feature the normal turns by about e/feature
			if math.Abs(g2.Norm()-1) > 1e-2 || g2.Scale(-1/g2.Norm()).Dist(n) > 3*e/feature+1e-3 {
				return n, nearest, false
			}
		}
	}
	return n, nearest, true
}

// Crossings marches the reference field along origin + t*dir for t in
// [0,tmax] and returns the parameters where it changes sign (bisected), and
// whether the ray is in general position (no near-tangency, no crossing closer
// than tol to another or to the origin).
func Crossings(f func(C3) float64, origin, dir C3, tmax, step, tol float64) (ts []float64, general bool) {
	general = true
	prevT := 0.0
	prev := f(origin)
	if math.Abs(prev) < tol {
		general = false
	}
	var vals []float64
	vals = append(vals, prev)
	for t := step; t <= tmax+step; t += step {
		cur := f(origin.Add(dir.Scale(t)))
		vals = append(vals, cur)
		if (prev > 0) != (cur > 0) {
			lo, hi := prevT, t
			flo := prev
			for i := 0; i < 60; i++ {
				mid := (lo + hi) / 2
				fm := f(origin.Add(dir.Scale(mid)))
				if (fm > 0) == (flo > 0) {
					lo, flo = mid, fm
				} else {
					hi = mid
				}
			}
			ts = append(ts, (lo+hi)/2)
		}
		prev, prevT = cur, t
	}
	// near-tangency: a local extremum of |f| below tol without a sign change nearby
	for i := 1; i+1 < len(vals); i++ {
		a, b, c := math.Abs(vals[i-1]), math.Abs(vals[i]), math.Abs(vals[i+1])
		if b < a && b < c && b < tol && (vals[i-1] > 0) == (vals[i+1] > 0) {
			general = false
		}
	}
	for i := range ts {
		if ts[i] < tol/dir.Norm() || (i > 0 && ts[i]-ts[i-1] < tol/dir.Norm()) {
			general = false
		}
	}
	return
}

// ---------- 2D ----------

type Shape2 struct {
	Name    string
	Obj     interface{}
	SDF     func(p C2) float64
	Feature float64
	Center  C2
	Extent  float64
}

func Shapes2() []Shape2 {
	var out []Shape2
	for _, c := range []C2{{}, {X: 1, Y: -2}} {
		for _, r := range []float64{0.5, 2} {
			c, r := c, r
			out = append(out, Shape2{fmt.Sprintf("Circle(%v,%g)", c, r), &model2d.Circle{Center: c, Radius: r},
				func(p C2) float64 { return r - p.Dist(c) }, r, c, r})
		}
		min, max := c.Sub(C2{X: 1, Y: 0.25}), c.Add(C2{X: 0.5, Y: 1.5})
		ctr, h := min.Mid(max), max.Sub(min).Scale(0.5)
		out = append(out, Shape2{fmt.Sprintf("Rect(%v,%v)", min, max), model2d.NewRect(min, max),
			func(p C2) float64 { return boxSDF2(p.X-ctr.X, p.Y-ctr.Y, h.X, h.Y) }, math.Min(h.X, h.Y) * 2, ctr, h.Norm()})
		for _, d := range []C2{{X: 1}, {X: 1, Y: 1}, {X: -0.3, Y: 2}, {X: 1, Y: 1e-3}} {
			for _, r := range []float64{0.3, 1} {
				p1, p2, r := c, c.Add(d), r
				out = append(out, Shape2{fmt.Sprintf("Capsule(%v,%v,%g)", p1, p2, r), &model2d.Capsule{P1: p1, P2: p2, Radius: r},
					func(p C2) float64 { return r - segDist2(p.X, p.Y, p1.X, p1.Y, p2.X, p2.Y) }, r, p1.Mid(p2), p1.Dist(p2)/2 + r})
			}
		}
		for _, t := range [][3]C2{{{X: 0, Y: 0}, {X: 2, Y: 0.3}, {X: 0.5, Y: 1.7}}, {{X: 0, Y: 0}, {X: 0.5, Y: 1.7}, {X: 2, Y: 0.3}}, {{X: 0, Y: 0}, {X: 3, Y: 0}, {X: 1.5, Y: 0.2}}} {
			a, b, d := t[0].Add(c), t[1].Add(c), t[2].Add(c)
			out = append(out, Shape2{fmt.Sprintf("Triangle(%v,%v,%v)", a, b, d), model2d.NewTriangle(a, b, d),
				func(p C2) float64 {
					dist := math.Min(segDist2(p.X, p.Y, a.X, a.Y, b.X, b.Y), math.Min(segDist2(p.X, p.Y, b.X, b.Y, d.X, d.Y), segDist2(p.X, p.Y, d.X, d.Y, a.X, a.Y)))
					s1 := (b.X-a.X)*(p.Y-a.Y) - (b.Y-a.Y)*(p.X-a.X)
					s2 := (d.X-b.X)*(p.Y-b.Y) - (d.Y-b.Y)*(p.X-b.X)
					s3 := (a.X-d.X)*(p.Y-d.Y) - (a.Y-d.Y)*(p.X-d.X)
					if (s1 >= 0 && s2 >= 0 && s3 >= 0) || (s1 <= 0 && s2 <= 0 && s3 <= 0) {
						return dist
					}
					return -dist
				}, 1000, a.Add(b).Add(d).Scale(1.0 / 3), 2}) // flat edges: the normal does not turn along the boundary
		}
	}
	return out
}

// SegDist2 is the distance from (px,py) to the segment (ax,ay)-(bx,by).
func SegDist2(px, py, ax, ay, bx, by float64) float64 { return segDist2(px, py, ax, ay, bx, by) }
