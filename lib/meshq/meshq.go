// Package meshq compares every query of a library mesh with the answer a
// plain list of its faces gives by linear scan.
package meshq

import (
	"fmt"
	"sort"
	"strings"

	"github.com/unixpickle/model3d/model2d"
	"github.com/unixpickle/model3d/model3d"
)

type C3 = model3d.Coord3D
type T3 = model3d.Triangle

func ptrSet3(ts []*T3) string {
	s := make([]string, len(ts))
	for i, t := range ts {
		s[i] = fmt.Sprintf("%p", t)
	}
	sort.Strings(s)
	return strings.Join(s, ",")
}

func hasV3(t *T3, v C3) bool { return t[0] == v || t[1] == v || t[2] == v }

func coordSet3(cs []C3) (string, bool) {
	s := make([]string, len(cs))
	dup := false
	seen := map[C3]bool{}
	for i, c := range cs {
		if seen[c] {
			dup = true
		}
		seen[c] = true
		s[i] = fmt.Sprintf("%g,%g,%g", c.X+0, c.Y+0, c.Z+0)
	}
	sort.Strings(s)
	return strings.Join(s, ";"), dup
}

// Check3 compares m against the plain face list ref. If ref is nil the list is
// taken from m.TriangleSlice() (self-consistency). probes are extra vertices
// and faces to query besides those of ref. It returns "" or the first
// disagreement.
func Check3(m *model3d.Mesh, ref []*T3, probes []C3, probeFaces []*T3) string {
	if ref == nil {
		ref = m.TriangleSlice()
	}
	if m.NumTriangles() != len(ref) {
		return fmt.Sprintf("NumTriangles()=%d, face list has %d", m.NumTriangles(), len(ref))
	}
	if a, b := ptrSet3(m.TriangleSlice()), ptrSet3(ref); a != b {
		return "TriangleSlice differs from the face list"
	}
	var it []*T3
	m.Iterate(func(t *T3) { it = append(it, t) })
	if ptrSet3(it) != ptrSet3(ref) {
		return fmt.Sprintf("Iterate visits %d faces, face list has %d", len(it), len(ref))
	}
	inRef := map[*T3]bool{}
	for _, t := range ref {
		inRef[t] = true
		if !m.Contains(t) {
			return "Contains(face in list)=false"
		}
	}
	for _, t := range probeFaces {
		if m.Contains(t) != inRef[t] {
			return fmt.Sprintf("Contains(%v)=%v, face list says %v", *t, m.Contains(t), inRef[t])
		}
	}
	// vertices
	var verts []C3
	seen := map[C3]bool{}
	for _, t := range ref {
		for _, v := range t {
			if !seen[v] {
				seen[v] = true
				verts = append(verts, v)
			}
		}
	}
	wantV, _ := coordSet3(verts)
	gotV, dup := coordSet3(m.VertexSlice())
	if dup {
		return "VertexSlice contains a vertex twice"
	}
	if gotV != wantV {
		return fmt.Sprintf("VertexSlice={%s}, faces have {%s}", gotV, wantV)
	}
	var iv []C3
	m.IterateVertices(func(c C3) { iv = append(iv, c) })
	gotIV, dup := coordSet3(iv)
	if dup || gotIV != wantV {
		return fmt.Sprintf("IterateVertices={%s}, faces have {%s}", gotIV, wantV)
	}
	all := append(append([]C3{}, verts...), probes...)
	// Find(v)
	for _, v := range all {
		var want []*T3
		for _, t := range ref {
			if hasV3(t, v) {
				want = append(want, t)
			}
		}
		if got := m.Find(v); ptrSet3(got) != ptrSet3(want) {
			return fmt.Sprintf("Find(%v) returns %d faces, linear scan finds %d", v, len(got), len(want))
		}
	}
	// Find(v,w), Find(u,v,w)
	for i, v := range all {
		for j, w := range all {
			if i == j {
				continue
			}
			var want []*T3
			for _, t := range ref {
				if hasV3(t, v) && hasV3(t, w) {
					want = append(want, t)
				}
			}
			if got := m.Find(v, w); ptrSet3(got) != ptrSet3(want) {
				return fmt.Sprintf("Find(%v,%v) returns %d faces, linear scan finds %d", v, w, len(got), len(want))
			}
		}
	}
	for _, t := range ref {
		var want []*T3
		for _, t1 := range ref {
			if hasV3(t1, t[0]) && hasV3(t1, t[1]) && hasV3(t1, t[2]) {
				want = append(want, t1)
			}
		}
		if got := m.Find(t[0], t[1], t[2]); ptrSet3(got) != ptrSet3(want) {
			return fmt.Sprintf("Find(%v,%v,%v) returns %d faces, linear scan finds %d", t[0], t[1], t[2], len(got), len(want))
		}
	}
	// Neighbors(f) for non-degenerate f
	faces := append(append([]*T3{}, ref...), probeFaces...)
	for _, f := range faces {
		if f[0] == f[1] || f[1] == f[2] || f[0] == f[2] {
			continue
		}
		var want []*T3
		for _, t1 := range ref {
			if t1 == f {
				continue
			}
			n := 0
			for _, v := range f {
				if hasV3(t1, v) {
					n++
				}
			}
			if n >= 2 {
				want = append(want, t1)
			}
		}
		if got := m.Neighbors(f); ptrSet3(got) != ptrSet3(want) {
			return fmt.Sprintf("Neighbors(%v) returns %d faces, linear scan finds %d", *f, len(got), len(want))
		}
	}
	// AllVertexNeighbors
	avn := m.AllVertexNeighbors()
	if avn.Len() != len(verts) {
		return fmt.Sprintf("AllVertexNeighbors has %d keys, faces have %d vertices", avn.Len(), len(verts))
	}
	for _, v := range verts {
		wantN := map[C3]bool{}
		for _, t := range ref {
			// neighbours = the other corners of each face at every position i != j
			for i, c := range t {
				if c != v {
					continue
				}
				for j, c1 := range t {
					if i != j {
						wantN[c1] = true
					}
				}
			}
		}
		var wl []C3
		for c := range wantN {
			wl = append(wl, c)
		}
		ws, _ := coordSet3(wl)
		gs, dup := coordSet3(avn.Value(v))
		if dup || gs != ws {
			return fmt.Sprintf("AllVertexNeighbors[%v]={%s}, faces give {%s}", v, gs, ws)
		}
	}
	// Min / Max
	if len(ref) == 0 {
		if m.Min() != (C3{}) || m.Max() != (C3{}) {
			return "Min/Max of empty mesh not zero"
		}
	} else {
		mn, mx := ref[0][0], ref[0][0]
		for _, t := range ref {
			for _, c := range t {
				mn, mx = mn.Min(c), mx.Max(c)
			}
		}
		if m.Min() != mn || m.Max() != mx {
			return fmt.Sprintf("Min/Max=%v/%v, faces give %v/%v", m.Min(), m.Max(), mn, mx)
		}
	}
	return ""
}

// FaceMultiset3 returns the sorted multiset of faces by value; if cyclic is
// true faces are first rotated to a canonical start (orientation preserved).
func FaceMultiset3(ts []*T3, cyclic bool) string {
	s := make([]string, len(ts))
	for i, t := range ts {
		f := *t
		if cyclic {
			best := 0
			for k := 1; k < 3; k++ {
				if less3(f[k], f[best]) {
					best = k
				}
			}
			f = T3{f[best], f[(best+1)%3], f[(best+2)%3]}
		}
		s[i] = fmt.Sprintf("%g,%g,%g|%g,%g,%g|%g,%g,%g", f[0].X+0, f[0].Y+0, f[0].Z+0, f[1].X+0, f[1].Y+0, f[1].Z+0, f[2].X+0, f[2].Y+0, f[2].Z+0)
	}
	sort.Strings(s)
	return strings.Join(s, "\n")
}

func less3(a, b C3) bool {
	if a.X != b.X {
		return a.X < b.X
	}
	if a.Y != b.Y {
		return a.Y < b.Y
	}
	return a.Z < b.Z
}

// ---------------- 2D ----------------

type C2 = model2d.Coord
type S2 = model2d.Segment

func ptrSet2(ts []*S2) string {
	s := make([]string, len(ts))
	for i, t := range ts {
		s[i] = fmt.Sprintf("%p", t)
	}
	sort.Strings(s)
	return strings.Join(s, ",")
}
func hasV2(t *S2, v C2) bool { return t[0] == v || t[1] == v }
func coordSet2(cs []C2) (string, bool) {
	s := make([]string, len(cs))
	dup := false
	seen := map[C2]bool{}
	for i, c := range cs {
		if seen[c] {
			dup = true
		}
		seen[c] = true
		s[i] = fmt.Sprintf("%g,%g", c.X+0, c.Y+0)
	}
	sort.Strings(s)
	return strings.Join(s, ";"), dup
}

func Check2(m *model2d.Mesh, ref []*S2, probes []C2, probeFaces []*S2) string {
	if ref == nil {
		ref = m.SegmentSlice()
	}
	if m.NumSegments() != len(ref) {
		return fmt.Sprintf("NumSegments()=%d, segment list has %d", m.NumSegments(), len(ref))
	}
	if ptrSet2(m.SegmentSlice()) != ptrSet2(ref) {
		return "SegmentSlice differs from the segment list"
	}
	var it []*S2
	m.Iterate(func(t *S2) { it = append(it, t) })
	if ptrSet2(it) != ptrSet2(ref) {
		return fmt.Sprintf("Iterate visits %d segments, list has %d", len(it), len(ref))
	}
	inRef := map[*S2]bool{}
	for _, t := range ref {
		inRef[t] = true
		if !m.Contains(t) {
			return "Contains(segment in list)=false"
		}
	}
	for _, t := range probeFaces {
		if m.Contains(t) != inRef[t] {
			return fmt.Sprintf("Contains(%v)=%v, list says %v", *t, m.Contains(t), inRef[t])
		}
	}
	var verts []C2
	seen := map[C2]bool{}
	for _, t := range ref {
		for _, v := range t {
			if !seen[v] {
				seen[v] = true
				verts = append(verts, v)
			}
		}
	}
	wantV, _ := coordSet2(verts)
	gotV, dup := coordSet2(m.VertexSlice())
	if dup {
		return "VertexSlice contains a vertex twice"
	}
	if gotV != wantV {
		return fmt.Sprintf("VertexSlice={%s}, segments have {%s}", gotV, wantV)
	}
	var iv []C2
	m.IterateVertices(func(c C2) { iv = append(iv, c) })
	gotIV, dup := coordSet2(iv)
	if dup || gotIV != wantV {
		return fmt.Sprintf("IterateVertices={%s}, segments have {%s}", gotIV, wantV)
	}
	all := append(append([]C2{}, verts...), probes...)
	for _, v := range all {
		var want []*S2
		for _, t := range ref {
			if hasV2(t, v) {
				want = append(want, t)
			}
		}
		if got := m.Find(v); ptrSet2(got) != ptrSet2(want) {
			return fmt.Sprintf("Find(%v) returns %d segments, linear scan finds %d", v, len(got), len(want))
		}
	}
	for i, v := range all {
		for j, w := range all {
			if i == j {
				continue
			}
			var want []*S2
			for _, t := range ref {
				if hasV2(t, v) && hasV2(t, w) {
					want = append(want, t)
				}
			}
			if got := m.Find(v, w); ptrSet2(got) != ptrSet2(want) {
				return fmt.Sprintf("Find(%v,%v) returns %d segments, linear scan finds %d", v, w, len(got), len(want))
			}
		}
	}
	faces := append(append([]*S2{}, ref...), probeFaces...)
	for _, f := range faces {
		if f[0] == f[1] {
			continue
		}
		var want []*S2
		for _, t1 := range ref {
			if t1 != f && (hasV2(t1, f[0]) || hasV2(t1, f[1])) {
				want = append(want, t1)
			}
		}
		if got := m.Neighbors(f); ptrSet2(got) != ptrSet2(want) {
			return fmt.Sprintf("Neighbors(%v) returns %d segments, linear scan finds %d", *f, len(got), len(want))
		}
	}
	avn := m.AllVertexNeighbors()
	if avn.Len() != len(verts) {
		return fmt.Sprintf("AllVertexNeighbors has %d keys, segments have %d vertices", avn.Len(), len(verts))
	}
	for _, v := range verts {
		wantN := map[C2]bool{}
		for _, t := range ref {
			for i, c := range t {
				if c == v {
					wantN[t[1-i]] = true
				}
			}
		}
		var wl []C2
		for c := range wantN {
			wl = append(wl, c)
		}
		ws, _ := coordSet2(wl)
		gs, dup := coordSet2(avn.Value(v))
		if dup || gs != ws {
			return fmt.Sprintf("AllVertexNeighbors[%v]={%s}, segments give {%s}", v, gs, ws)
		}
	}
	if len(ref) == 0 {
		if m.Min() != (C2{}) || m.Max() != (C2{}) {
			return "Min/Max of empty mesh not zero"
		}
	} else {
		mn, mx := ref[0][0], ref[0][0]
		for _, t := range ref {
			for _, c := range t {
				mn, mx = mn.Min(c), mx.Max(c)
			}
		}
		if m.Min() != mn || m.Max() != mx {
			return fmt.Sprintf("Min/Max=%v/%v, segments give %v/%v", m.Min(), m.Max(), mn, mx)
		}
	}
	return ""
}

func SegMultiset2(ts []*S2) string {
	s := make([]string, len(ts))
	for i, t := range ts {
		s[i] = fmt.Sprintf("%g,%g|%g,%g", t[0].X+0, t[0].Y+0, t[1].X+0, t[1].Y+0)
	}
	sort.Strings(s)
	return strings.Join(s, "\n")
}
