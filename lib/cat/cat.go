// Package cat is a catalogue of tiny closed, consistently oriented manifold
// meshes (3D) and closed polygons (2D) in general position, built from
// explicit coordinates so that no library mesh generator is trusted.
package cat

import (
	"math"

	"github.com/unixpickle/model3d/model2d"
	"github.com/unixpickle/model3d/model3d"
)

type Named3 struct {
	Name  string
	Tris  [][3]model3d.Coord3D
	Genus int
	Comps int
}

func (n Named3) Mesh() *model3d.Mesh {
	m := model3d.NewMesh()
	for _, t := range n.Tris {
		m.Add(&model3d.Triangle{t[0], t[1], t[2]})
	}
	return m
}

func p(x, y, z float64) model3d.Coord3D { return model3d.XYZ(x, y, z) }

// orient flips faces so that the closed surface has positive volume, given a
// consistently oriented input.
func fixSign(ts [][3]model3d.Coord3D) [][3]model3d.Coord3D {
	// signed volume about the first vertex, not about the origin: far from the origin the terms of the absolute
	// formula are of the order of the cube of the offset and their sum has no correct digit left
	var vol float64
	if len(ts) > 0 {
		o := ts[0][0]
		for _, t := range ts {
			vol += t[0].Sub(o).Dot(t[1].Sub(o).Cross(t[2].Sub(o)))
		}
	}
	if vol < 0 {
		for i, t := range ts {
			ts[i] = [3]model3d.Coord3D{t[1], t[0], t[2]}
		}
	}
	return ts
}

func tetra(a, b, c, d model3d.Coord3D) [][3]model3d.Coord3D {
	return fixSign([][3]model3d.Coord3D{{a, b, c}, {a, c, d}, {a, d, b}, {b, d, c}})
}

func translate(ts [][3]model3d.Coord3D, o model3d.Coord3D, s float64) [][3]model3d.Coord3D {
	out := make([][3]model3d.Coord3D, len(ts))
	for i, t := range ts {
		for k := 0; k < 3; k++ {
			out[i][k] = t[k].Scale(s).Add(o)
		}
	}
	return out
}

func octa() [][3]model3d.Coord3D {
	// slightly irregular octahedron (general position)
	xp, xm := p(1.1, 0.05, 0), p(-1, 0, 0.07)
	yp, ym := p(0.03, 1.2, 0), p(0, -0.9, -0.04)
	zp, zm := p(0, 0.02, 1.3), p(0.06, 0, -1)
	return fixSign([][3]model3d.Coord3D{
		{xp, yp, zp}, {yp, xm, zp}, {xm, ym, zp}, {ym, xp, zp},
		{yp, xp, zm}, {xm, yp, zm}, {ym, xm, zm}, {xp, ym, zm},
	})
}

func quad(a, b, c, d model3d.Coord3D) [][3]model3d.Coord3D {
	return [][3]model3d.Coord3D{{a, b, d}, {b, c, d}}
}

func box(min, max model3d.Coord3D) [][3]model3d.Coord3D {
	c := func(i, j, k int) model3d.Coord3D {
		r := min
		if i == 1 {
			r.X = max.X
		}
		if j == 1 {
			r.Y = max.Y
		}
		if k == 1 {
			r.Z = max.Z
		}
		return r
	}
	var ts [][3]model3d.Coord3D
	ts = append(ts, quad(c(0, 0, 0), c(0, 1, 0), c(1, 1, 0), c(1, 0, 0))...) // bottom (-z)
	ts = append(ts, quad(c(0, 0, 1), c(1, 0, 1), c(1, 1, 1), c(0, 1, 1))...) // top
	ts = append(ts, quad(c(0, 0, 0), c(1, 0, 0), c(1, 0, 1), c(0, 0, 1))...) // -y
	ts = append(ts, quad(c(0, 1, 0), c(0, 1, 1), c(1, 1, 1), c(1, 1, 0))...) // +y
	ts = append(ts, quad(c(0, 0, 0), c(0, 0, 1), c(0, 1, 1), c(0, 1, 0))...) // -x
	ts = append(ts, quad(c(1, 0, 0), c(1, 1, 0), c(1, 1, 1), c(1, 0, 1))...) // +x
	return fixSign(ts)
}

// gridBox is a box whose faces are n x n grids of quads (long coplanar runs).
func gridBox(n int) [][3]model3d.Coord3D {
	var ts [][3]model3d.Coord3D
	f := func(i int) float64 { return float64(i) / float64(n) }
	for a := 0; a < n; a++ {
		for b := 0; b < n; b++ {
			u0, u1, v0, v1 := f(a), f(a+1), f(b), f(b+1)
			ts = append(ts, quad(p(u0, v0, 0), p(u0, v1, 0), p(u1, v1, 0), p(u1, v0, 0))...)
			ts = append(ts, quad(p(u0, v0, 1), p(u1, v0, 1), p(u1, v1, 1), p(u0, v1, 1))...)
			ts = append(ts, quad(p(u0, 0, v0), p(u1, 0, v0), p(u1, 0, v1), p(u0, 0, v1))...)
			ts = append(ts, quad(p(u0, 1, v0), p(u0, 1, v1), p(u1, 1, v1), p(u1, 1, v0))...)
			ts = append(ts, quad(p(0, u0, v0), p(0, u0, v1), p(0, u1, v1), p(0, u1, v0))...)
			ts = append(ts, quad(p(1, u0, v0), p(1, u1, v0), p(1, u1, v1), p(1, u0, v1))...)
		}
	}
	return fixSign(ts)
}

func prism() [][3]model3d.Coord3D {
	a0, b0, c0 := p(0, 0, 0), p(1.3, 0.1, 0), p(0.4, 1.1, 0)
	a1, b1, c1 := p(0.05, 0, 1), p(1.3, 0.15, 1.1), p(0.4, 1.2, 0.9)
	var ts [][3]model3d.Coord3D
	ts = append(ts, [3]model3d.Coord3D{a0, c0, b0}, [3]model3d.Coord3D{a1, b1, c1})
	ts = append(ts, quad(a0, b0, b1, a1)...)
	ts = append(ts, quad(b0, c0, c1, b1)...)
	ts = append(ts, quad(c0, a0, a1, c1)...)
	return fixSign(ts)
}

func torus(nu, nv int, R, r float64) [][3]model3d.Coord3D {
	pt := func(i, j int) model3d.Coord3D {
		u := 2 * math.Pi * float64(i%nu) / float64(nu)
		v := 2 * math.Pi * float64(j%nv) / float64(nv)
		return p((R+r*math.Cos(v))*math.Cos(u), (R+r*math.Cos(v))*math.Sin(u), r*math.Sin(v))
	}
	var ts [][3]model3d.Coord3D
	for i := 0; i < nu; i++ {
		for j := 0; j < nv; j++ {
			ts = append(ts, quad(pt(i, j), pt(i+1, j), pt(i+1, j+1), pt(i, j+1))...)
		}
	}
	return fixSign(ts)
}

func icosa() [][3]model3d.Coord3D {
	phi := (1 + math.Sqrt(5)) / 2
	v := []model3d.Coord3D{
		p(-1, phi, 0), p(1, phi, 0), p(-1, -phi, 0), p(1, -phi, 0),
		p(0, -1, phi), p(0, 1, phi), p(0, -1, -phi), p(0, 1, -phi),
		p(phi, 0, -1), p(phi, 0, 1), p(-phi, 0, -1), p(-phi, 0, 1),
	}
	idx := [][3]int{{0, 11, 5}, {0, 5, 1}, {0, 1, 7}, {0, 7, 10}, {0, 10, 11}, {1, 5, 9}, {5, 11, 4}, {11, 10, 2}, {10, 7, 6}, {7, 1, 8},
		{3, 9, 4}, {3, 4, 2}, {3, 2, 6}, {3, 6, 8}, {3, 8, 9}, {4, 9, 5}, {2, 4, 11}, {6, 2, 10}, {8, 6, 7}, {9, 8, 1}}
	var ts [][3]model3d.Coord3D
	for _, f := range idx {
		ts = append(ts, [3]model3d.Coord3D{v[f[0]], v[f[1]], v[f[2]]})
	}
	return fixSign(ts)
}

// Closed3 returns the catalogue. small=true keeps only meshes with <= 24 faces.
func Closed3(small bool) []Named3 {
	out := []Named3{
		{"tetra", tetra(p(0, 0, 0), p(1, 0.1, 0), p(0.2, 1.1, 0.05), p(0.3, 0.2, 0.9)), 0, 1},
		{"sliver-tetra", tetra(p(0, 0, 0), p(2, 0, 0.02), p(1, 1, 0.1), p(1, -0.9, 0.12)), 0, 1},
		{"octa", octa(), 0, 1},
		{"prism", prism(), 0, 1},
		{"cube", box(p(0, 0, 0), p(1, 1.5, 2)), 0, 1},
		{"icosa", icosa(), 0, 1},
		{"two-tetra", append(tetra(p(0, 0, 0), p(1, 0.1, 0), p(0.2, 1.1, 0.05), p(0.3, 0.2, 0.9)),
			tetra(p(3, 0, 0), p(4, 0.2, 0.1), p(3.2, 1.3, 0.05), p(3.3, 0.1, 1.1))...), 0, 2},
	}
	if !small {
		out = append(out,
			Named3{"gridbox2", gridBox(2), 0, 1},
			Named3{"gridbox3", gridBox(3), 0, 1},
			Named3{"torus4x3", torus(4, 3, 2, 0.7), 1, 1},
			Named3{"torus5x4", torus(5, 4, 2, 0.7), 1, 1},
			Named3{"nested-cubes", append(box(p(0, 0, 0), p(3, 3, 3)), flip(box(p(1, 1, 1), p(2, 2.1, 2.2)))...), 0, 2},
		)
	}
	return out
}

func flip(ts [][3]model3d.Coord3D) [][3]model3d.Coord3D {
	out := make([][3]model3d.Coord3D, len(ts))
	for i, t := range ts {
		out[i] = [3]model3d.Coord3D{t[1], t[0], t[2]}
	}
	return out
}

// Box exposes the explicit box for other harnesses.
func Box(min, max model3d.Coord3D) [][3]model3d.Coord3D { return box(min, max) }
func Flip(ts [][3]model3d.Coord3D) [][3]model3d.Coord3D { return flip(ts) }
func Tetra(a, b, c, d model3d.Coord3D) [][3]model3d.Coord3D {
	return tetra(a, b, c, d)
}
func Translate(ts [][3]model3d.Coord3D, o model3d.Coord3D, s float64) [][3]model3d.Coord3D {
	return translate(ts, o, s)
}
func GridBox(n int) [][3]model3d.Coord3D { return gridBox(n) }
func Torus(nu, nv int, R, r float64) [][3]model3d.Coord3D {
	return torus(nu, nv, R, r)
}

// ---------- 2D ----------

type Named2 struct {
	Name string
	Pts  [][]model2d.Coord // one or more closed loops; outer loops clockwise?? see Mesh
}

// Mesh builds a model2d mesh with the library's orientation convention
// (normals (-dy,dx) pointing outward = clockwise outer loops).
func (n Named2) Mesh() *model2d.Mesh {
	m := model2d.NewMesh()
	for _, loop := range n.Pts {
		for i := range loop {
			m.Add(&model2d.Segment{loop[i], loop[(i+1)%len(loop)]})
		}
	}
	return m
}

func q(x, y float64) model2d.Coord { return model2d.XY(x, y) }

func cw(loop []model2d.Coord) []model2d.Coord {
	var a float64
	for i := range loop {
		j := (i + 1) % len(loop)
		a += loop[i].X*loop[j].Y - loop[i].Y*loop[j].X
	}
	if a > 0 {
		out := make([]model2d.Coord, len(loop))
		for i := range loop {
			out[i] = loop[len(loop)-1-i]
		}
		return out
	}
	return loop
}

func ccw(loop []model2d.Coord) []model2d.Coord {
	c := cw(loop)
	out := make([]model2d.Coord, len(c))
	for i := range c {
		out[i] = c[len(c)-1-i]
	}
	return out
}

func Closed2() []Named2 {
	sq := []model2d.Coord{q(0, 0), q(1, 0), q(1, 1), q(0, 1)}
	colin := []model2d.Coord{q(0, 0), q(1, 0), q(2, 0), q(3, 0), q(3, 1), q(3, 2), q(1.5, 2), q(0, 2), q(0, 1)}
	lshape := []model2d.Coord{q(0, 0), q(2, 0), q(2, 1), q(1, 1), q(1, 2), q(0, 2)}
	tri := []model2d.Coord{q(0, 0), q(1.3, 0.1), q(0.4, 1.1)}
	hexa := []model2d.Coord{}
	for i := 0; i < 7; i++ {
		a := 2 * math.Pi * float64(i) / 7
		hexa = append(hexa, q(2*math.Cos(a)+0.01*float64(i), 1.5*math.Sin(a)))
	}
	inner := []model2d.Coord{q(0.8, 0.7), q(2.2, 0.7), q(2.2, 1.3), q(0.8, 1.4)}
	gon24 := []model2d.Coord{}
	for i := 0; i < 24; i++ {
		a := 2 * math.Pi * float64(i) / 24
		gon24 = append(gon24, q(1.5*math.Cos(a)+0.25, 1.5*math.Sin(a)-0.5))
	}
	return []Named2{
		{"triangle", [][]model2d.Coord{cw(tri)}},
		{"square", [][]model2d.Coord{cw(sq)}},
		{"colinear-runs", [][]model2d.Coord{cw(colin)}},
		{"L", [][]model2d.Coord{cw(lshape)}},
		{"heptagon", [][]model2d.Coord{cw(hexa)}},
		{"with-hole", [][]model2d.Coord{cw(colin), ccw(inner)}},
		{"two-squares", [][]model2d.Coord{cw(sq), cw([]model2d.Coord{q(3, 0), q(4, 0.1), q(4, 1), q(3, 1.2)})}},
		// a finely sampled circle: every vertex is nearly colinear with its neighbours, the whole bends by 2 pi
		{"gon24", [][]model2d.Coord{cw(gon24)}},
	}
}
