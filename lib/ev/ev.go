// Package ev is the reporting plumbing shared by all checks: argument parsing,
// counters, known-finding matching, replay files, the evidence file and the
// exit status contract (0 = held, 1 = VIOLATION, 2 = machinery error).
package ev

import (
	"bufio"
	"bytes"
	"encoding/json"
	"fmt"
	"hash/fnv"
	"os"
	"os/exec"
	"path/filepath"
	"regexp"
	"sort"
	"strconv"
	"strings"
	"sync"
	"sync/atomic"
	"syscall"
	"time"
)

const Root = "/verif"

// Work is the scratch directory of the checks (binaries, instrumented tree). RepoDir is the tree under test.
// OutDir receives evidence/ and replays/. The environment overrides exist so that a seeded change can be
// evaluated from a scratch worktree without touching /repo or the committed evidence (tools/seed_eval.sh);
// the registered commands never set them.
func Work() string {
	if w := os.Getenv("VERIF_WORK"); w != "" {
		return w
	}
	return filepath.Join(Root, ".work")
}

func RepoDir() string {
	if w := os.Getenv("VERIF_REPO"); w != "" {
		return w
	}
	return "/repo"
}

func OutDir() string {
	if w := os.Getenv("VERIF_OUT"); w != "" {
		return w
	}
	return Root
}

type finding struct {
	key  string
	what string
	n    int
}

// Run is one invocation of one check.
type Run struct {
	Prop   string
	Level  string
	Tier   string
	Replay string // non-empty when invoked with --replay <path>
	Seed   int

	start time.Time

	evals      int64
	nontrivial int64
	states     int64
	trans      int64
	traces     int64
	skipped    int64

	mu        sync.Mutex
	ntKeys    map[uint64]struct{}
	stKeys    map[uint64]struct{}
	outcomes  map[string]struct{}
	samples   []interface{}
	extra     map[string]interface{}
	rule      string
	assume    []string
	exh       bool
	exhSet    bool
	known     map[string]string // key -> what (open findings for this property)
	knownHit  map[string]*finding
	viols     map[string]*finding
	violOrder []string
	deadline  time.Time
	child     bool
	childViol map[string]int
}

// Start parses the command line: `<tier>` or `--replay <path>`.
func Start(prop, level string) *Run {
	r := &Run{Prop: prop, Level: level, Tier: "quick", start: time.Now(),
		ntKeys: map[uint64]struct{}{}, stKeys: map[uint64]struct{}{}, outcomes: map[string]struct{}{},
		extra: map[string]interface{}{}, known: map[string]string{}, knownHit: map[string]*finding{},
		viols: map[string]*finding{}, exh: true, childViol: map[string]int{}}
	if t := os.Getenv("VERIF_TIER"); t == "quick" || t == "thorough" {
		r.Tier = t
	}
	args := os.Args[1:]
	for i := 0; i < len(args); i++ {
		switch args[i] {
		case "quick", "thorough":
			r.Tier = args[i]
		case "--replay":
			if i+1 < len(args) {
				r.Replay = args[i+1]
				i++
			}
		}
	}
	if s := os.Getenv("VERIF_SEED"); s != "" {
		r.Seed, _ = strconv.Atoi(s)
	}
	r.loadKnown()
	return r
}

func (r *Run) Thorough() bool { return r.Tier == "thorough" }

// Budget sets an internal wall-clock budget. Expired() turning true makes the
// check stop enumerating and report exhaustive:false; it is never a verdict.
func (r *Run) Budget(d time.Duration) { r.deadline = r.start.Add(d) }
func (r *Run) Expired() bool {
	if r.deadline.IsZero() {
		return false
	}
	if time.Now().After(r.deadline) {
		r.NotExhaustive("internal time budget reached")
		return true
	}
	return false
}

var lineRe = regexp.MustCompile(`^open:\s+property=(\S+)\s+key=(\S+)\s+(.*)$`)

func (r *Run) loadKnown() {
	f, err := os.Open(filepath.Join(Root, "known_findings.txt"))
	if err != nil {
		return
	}
	defer f.Close()
	sc := bufio.NewScanner(f)
	for sc.Scan() {
		m := lineRe.FindStringSubmatch(strings.TrimSpace(sc.Text()))
		if m != nil && m[1] == r.Prop {
			r.known[m[2]] = m[3]
		}
	}
}

func (r *Run) Eval(n int)          { atomic.AddInt64(&r.evals, int64(n)) }
func (r *Run) Evals() int64        { return atomic.LoadInt64(&r.evals) }
func (r *Run) Skipped(n int)       { atomic.AddInt64(&r.skipped, int64(n)) }
func (r *Run) Transitions(n int)   { atomic.AddInt64(&r.trans, int64(n)) }
func (r *Run) Traces(n int)        { atomic.AddInt64(&r.traces, int64(n)) }
func (r *Run) StatesAdd(n int)     { atomic.AddInt64(&r.states, int64(n)) }
func (r *Run) NontrivialAdd(n int) { atomic.AddInt64(&r.nontrivial, int64(n)) } // cases distinct by construction
func (r *Run) Rule(s string)       { r.rule = s }
func (r *Run) Assume(s ...string)  { r.assume = append(r.assume, s...) }
func (r *Run) Set(k string, v interface{}) {
	r.mu.Lock()
	r.extra[k] = v
	r.mu.Unlock()
}
func (r *Run) AddTo(k string, n int64) {
	r.mu.Lock()
	old, _ := r.extra[k].(int64)
	r.extra[k] = old + n
	r.mu.Unlock()
}

func H(s string) uint64 { h := fnv.New64a(); h.Write([]byte(s)); return h.Sum64() }

// NontrivialKey counts a non-trivial case once per distinct key.
func (r *Run) NontrivialKey(key string) {
	h := H(key)
	r.mu.Lock()
	r.ntKeys[h] = struct{}{}
	r.mu.Unlock()
}

// StateKey registers a canonical state; returns true if it is new.
func (r *Run) StateKey(key string) bool {
	h := H(key)
	r.mu.Lock()
	_, ok := r.stKeys[h]
	if !ok {
		r.stKeys[h] = struct{}{}
		if f := os.Getenv("VERIF_DUMP_STATE_KEYS"); f != "" { // debugging aid: append every new state key to a file
			if fh, err := os.OpenFile(f, os.O_APPEND|os.O_CREATE|os.O_WRONLY, 0o644); err == nil {
				fmt.Fprintln(fh, key)
				fh.Close()
			}
		}
	}
	r.mu.Unlock()
	return !ok
}

func (r *Run) Outcome(o string) {
	r.mu.Lock()
	r.outcomes[o] = struct{}{}
	r.mu.Unlock()
}

// Sample keeps up to 5 written-out cases.
func (r *Run) Sample(v interface{}) {
	r.mu.Lock()
	if len(r.samples) < 5 {
		r.samples = append(r.samples, v)
	}
	r.mu.Unlock()
}

func (r *Run) NotExhaustive(why string) {
	r.mu.Lock()
	r.exh = false
	r.extra["not_exhaustive_because"] = why
	r.mu.Unlock()
}

var sanitize = regexp.MustCompile(`[^A-Za-z0-9_.-]+`)

// Violation records a property violation. key names the specific failing class
// (api + input class); what is a human description; replay is any JSON-able
// value from which `--replay` can re-run the case.
func (r *Run) Violation(key, what string, replay interface{}) {
	r.mu.Lock()
	defer r.mu.Unlock()
	if r.child {
		r.childViol[key]++
		if r.childViol[key] <= 3 {
			b, _ := json.Marshal(map[string]interface{}{"key": key, "what": what, "case": replay})
			fmt.Printf("@@V %s\n", b)
		} else {
			fmt.Printf("@@N %s\n", key)
		}
		return
	}
	if kw, ok := r.known[key]; ok {
		f := r.knownHit[key]
		if f == nil {
			f = &finding{key: key, what: kw}
			r.knownHit[key] = f
		}
		f.n++
		return
	}
	f := r.viols[key]
	if f == nil {
		f = &finding{key: key, what: what}
		r.viols[key] = f
		r.violOrder = append(r.violOrder, key)
	}
	f.n++
	if f.n <= 3 && r.Replay == "" {
		dir := filepath.Join(OutDir(), "replays")
		os.MkdirAll(dir, 0o755)
		p := filepath.Join(dir, fmt.Sprintf("%s_%s_%d.json", r.Prop, sanitize.ReplaceAllString(key, "_"), f.n))
		b, _ := json.MarshalIndent(map[string]interface{}{"property": r.Prop, "key": key, "what": what, "case": replay}, "", " ")
		os.WriteFile(p, b, 0o644)
		fmt.Printf("VIOLATION property=%s replay=%s key=%s %s\n", r.Prop, p, key, what)
	} else if r.Replay != "" && f.n <= 3 {
		fmt.Printf("VIOLATION property=%s replay=%s key=%s %s\n", r.Prop, r.Replay, key, what)
	}
}

func (r *Run) NumViolations() int {
	r.mu.Lock()
	defer r.mu.Unlock()
	return len(r.viols)
}

// LoadReplay reads the "case" member of a replay file into v.
func (r *Run) LoadReplay(v interface{}) (key string) {
	b, err := os.ReadFile(r.Replay)
	if err != nil {
		Fatal("cannot read replay: %v", err)
	}
	var w struct {
		Key  string          `json:"key"`
		Case json.RawMessage `json:"case"`
	}
	if err := json.Unmarshal(b, &w); err != nil {
		Fatal("bad replay file: %v", err)
	}
	if err := json.Unmarshal(w.Case, v); err != nil {
		Fatal("bad replay case: %v", err)
	}
	return w.Key
}

// Fatal reports a machinery error (never a verdict).
func Fatal(format string, a ...interface{}) {
	fmt.Fprintf(os.Stderr, "ERROR: "+format+"\n", a...)
	os.Exit(2)
}

// Finish writes the evidence file, prints KNOWN-FINDING lines and exits.
func (r *Run) Finish() {
	r.mu.Lock()
	nt := atomic.LoadInt64(&r.nontrivial) + int64(len(r.ntKeys))
	st := atomic.LoadInt64(&r.states) + int64(len(r.stKeys))
	cov := map[string]interface{}{
		"evaluations":         atomic.LoadInt64(&r.evals),
		"distinct_nontrivial": nt,
		"rule":                r.rule,
		"samples":             r.samples,
		"exhaustive":          r.exh,
		"skipped_degenerate":  atomic.LoadInt64(&r.skipped),
	}
	if r.Level == "model_checking" {
		cov["states"] = st
		cov["transitions"] = atomic.LoadInt64(&r.trans)
		cov["traces_validated_against_impl"] = atomic.LoadInt64(&r.traces)
	}
	if len(r.outcomes) > 0 {
		cov["distinct_outcomes"] = len(r.outcomes)
	}
	for k, v := range r.extra {
		cov[k] = v
	}
	var keys []string
	for k := range r.knownHit {
		keys = append(keys, k)
	}
	sort.Strings(keys)
	var kf []string
	for _, k := range keys {
		f := r.knownHit[k]
		fmt.Printf("KNOWN-FINDING: property=%s key=%s cases=%d %s\n", r.Prop, k, f.n, f.what)
		kf = append(kf, fmt.Sprintf("%s (%d cases)", k, f.n))
	}
	if len(kf) > 0 {
		cov["known_findings_reproduced"] = kf
	}
	nv := len(r.viols)
	if nv > 0 {
		var vs []string
		for _, k := range r.violOrder {
			vs = append(vs, fmt.Sprintf("%s (%d cases): %s", k, r.viols[k].n, r.viols[k].what))
		}
		cov["violation_keys"] = vs
	}
	evd := map[string]interface{}{
		"property_id": r.Prop,
		"tier":        r.Tier,
		"seed":        r.Seed,
		"level":       r.Level,
		"coverage":    cov,
		"assumptions": r.assume,
		"wall_s":      time.Since(r.start).Seconds(),
		"violations":  nv,
	}
	r.mu.Unlock()
	if r.Replay == "" {
		os.MkdirAll(filepath.Join(OutDir(), "evidence"), 0o755)
		b, _ := json.MarshalIndent(evd, "", " ")
		if err := os.WriteFile(filepath.Join(OutDir(), "evidence", r.Prop+".json"), b, 0o644); err != nil {
			Fatal("cannot write evidence: %v", err)
		}
	}
	fmt.Printf("%s %s: evaluations=%d distinct_nontrivial=%d states=%d transitions=%d violations=%d known=%d exhaustive=%v wall=%.1fs\n",
		r.Prop, r.Tier, atomic.LoadInt64(&r.evals), nt, st, atomic.LoadInt64(&r.trans), nv, len(kf), r.exh, time.Since(r.start).Seconds())
	if nv > 0 {
		os.Exit(1)
	}
	os.Exit(0)
}

// Parallel runs f(i) for i in [0,n) on w workers (w<=0: 16).
func Parallel(n, w int, f func(i int)) {
	if w <= 0 {
		w = 16
	}
	if w > n {
		w = n
	}
	if w <= 1 {
		for i := 0; i < n; i++ {
			f(i)
		}
		return
	}
	var next int64 = -1
	var wg sync.WaitGroup
	for k := 0; k < w; k++ {
		wg.Add(1)
		go func() {
			defer wg.Done()
			for {
				i := int(atomic.AddInt64(&next, 1))
				if i >= n {
					return
				}
				f(i)
			}
		}()
	}
	wg.Wait()
}

// Try runs f and converts a panic into a string.
func Try(f func()) (panicked string) {
	defer func() {
		if e := recover(); e != nil {
			panicked = fmt.Sprint(e)
			if panicked == "" {
				panicked = "panic"
			}
		}
	}()
	f()
	return ""
}

type childStats struct {
	Evals, Nontrivial, States, Trans, Traces, Skipped int64
	NtKeys, StKeys                                    []uint64
	Outcomes                                          []string
	Samples                                           []interface{}
	Extra                                             map[string]interface{}
	Exh                                               bool
	Rule                                              string
	Assume                                            []string
}

var frameRe = regexp.MustCompile(`github\.com/unixpickle/model3d/[a-z0-9_]+\.(\(\*?[A-Za-z0-9_\[\].]+\)\.)?[A-Za-z0-9_]+`)

// Isolate runs one stage of a check in a child process (the same binary,
// re-executed), so that a crash the harness cannot recover - a panic inside a
// goroutine the library spawned, a fatal runtime error, memory exhaustion -
// is reported as a violation of that stage instead of taking the check down.
// All work of a check should be inside Isolate stages: the child re-runs main
// up to its stage.
func (r *Run) Isolate(stage string, f func()) {
	if r.Replay != "" {
		f()
		return
	}
	if env := os.Getenv("VERIF_STAGE"); env != "" {
		if env != stage {
			return
		}
		r.child = true
		f()
		r.mu.Lock()
		cs := childStats{Evals: r.evals, Nontrivial: r.nontrivial, States: r.states, Trans: r.trans, Traces: r.traces, Skipped: r.skipped,
			Samples: r.samples, Extra: r.extra, Exh: r.exh, Rule: r.rule, Assume: r.assume}
		for k := range r.ntKeys {
			cs.NtKeys = append(cs.NtKeys, k)
		}
		for k := range r.stKeys {
			cs.StKeys = append(cs.StKeys, k)
		}
		for k := range r.outcomes {
			cs.Outcomes = append(cs.Outcomes, k)
		}
		r.mu.Unlock()
		b, _ := json.Marshal(cs)
		fmt.Printf("@@S %s\n", b)
		os.Exit(0)
	}
	cmd := exec.Command(os.Args[0], os.Args[1:]...)
	cmd.Env = append(os.Environ(), "VERIF_STAGE="+stage)
	var so, se bytes.Buffer
	cmd.Stdout, cmd.Stderr = &so, &se
	// Watchdog: a stage of the quick tier takes well under a minute on this machine; one that is still running
	// after 30 minutes (thorough: 10 hours; VERIF_STAGE_LIMIT overrides, in seconds) is in a loop. It is asked for
	// its goroutine stacks (SIGQUIT) and reported as not terminating, with the library frame it was found in.
	limit := 30 * time.Minute
	if r.Thorough() {
		limit = 10 * time.Hour
	}
	if v, e := strconv.Atoi(os.Getenv("VERIF_STAGE_LIMIT")); e == nil && v > 0 {
		limit = time.Duration(v) * time.Second
	}
	err := cmd.Start()
	timedOut := false
	if err == nil {
		done := make(chan error, 1)
		go func() { done <- cmd.Wait() }()
		select {
		case err = <-done:
		case <-time.After(limit):
			timedOut = true
			cmd.Process.Signal(syscall.SIGQUIT)
			select {
			case err = <-done:
			case <-time.After(20 * time.Second):
				cmd.Process.Kill()
				err = <-done
			}
		}
	}
	if timedOut {
		msg := se.String()
		site := "unknown-site"
		if m := frameRe.FindString(msg); m != "" {
			site = strings.TrimPrefix(m, "github.com/unixpickle/model3d/")
		}
		if len(msg) > 6000 {
			msg = msg[:6000]
		}
		r.Violation(stage+"/nontermination/"+site, fmt.Sprintf("stage %s did not finish within %v (it normally takes seconds): a library call does not terminate; goroutine dump in the replay file", stage, limit), map[string]interface{}{"stage": stage, "stderr": msg})
		r.NotExhaustive("stage " + stage + " did not terminate")
		return
	}
	gotStats := false
	for _, line := range strings.Split(so.String(), "\n") {
		switch {
		case strings.HasPrefix(line, "@@V "):
			var v struct {
				Key, What string
				Case      interface{}
			}
			if json.Unmarshal([]byte(line[4:]), &v) == nil {
				r.Violation(v.Key, v.What, v.Case)
			}
		case strings.HasPrefix(line, "@@N "):
			r.Violation(line[4:], "", nil)
		case strings.HasPrefix(line, "@@S "):
			var cs childStats
			if e := json.Unmarshal([]byte(line[4:]), &cs); e != nil {
				Fatal("stage %s: bad stats: %v", stage, e)
			}
			gotStats = true
			atomic.AddInt64(&r.evals, cs.Evals)
			atomic.AddInt64(&r.nontrivial, cs.Nontrivial)
			atomic.AddInt64(&r.states, cs.States)
			atomic.AddInt64(&r.trans, cs.Trans)
			atomic.AddInt64(&r.traces, cs.Traces)
			atomic.AddInt64(&r.skipped, cs.Skipped)
			r.mu.Lock()
			for _, k := range cs.NtKeys {
				r.ntKeys[k] = struct{}{}
			}
			for _, k := range cs.StKeys {
				r.stKeys[k] = struct{}{}
			}
			for _, k := range cs.Outcomes {
				r.outcomes[k] = struct{}{}
			}
			for _, sm := range cs.Samples {
				if len(r.samples) < 5 {
					r.samples = append(r.samples, sm)
				}
			}
			for k, v := range cs.Extra {
				if f, ok := v.(float64); ok {
					if old, ok2 := r.extra[k].(float64); ok2 {
						v = old + f
					}
				}
				r.extra[k] = v
			}
			if !cs.Exh {
				r.exh = false
			}
			r.mu.Unlock()
		case line != "":
			fmt.Println(line)
		}
	}
	if se.Len() > 0 && (err == nil || gotStats) {
		os.Stderr.Write(se.Bytes())
	}
	if !gotStats {
		msg := se.String()
		if ee, ok := err.(*exec.ExitError); ok && ee.ExitCode() == 2 && strings.Contains(msg, "ERROR:") && !strings.Contains(msg, "goroutine ") {
			os.Stderr.WriteString(msg)
			os.Exit(2) // machinery error inside the child, not a verdict
		}
		first := strings.SplitN(strings.TrimSpace(msg), "\n", 2)[0]
		site := "unknown-site"
		if m := frameRe.FindString(msg); m != "" {
			site = strings.TrimPrefix(m, "github.com/unixpickle/model3d/")
		}
		if len(msg) > 4000 {
			msg = msg[:4000]
		}
		r.Violation(stage+"/crash/"+site, "stage "+stage+" crashed the process: "+first, map[string]interface{}{"stage": stage, "stderr": msg})
		r.NotExhaustive("stage " + stage + " crashed")
	}
}
