// Package frozen fingerprints everything reachable from a value (through
// pointers, slices, maps, interfaces and unexported fields) so that a check can
// decide whether a supposedly read-only operation wrote to shared state.
//
// Only reading reflection is used (no Interface()/Set), which works on
// unexported fields. Addresses are never part of the fingerprint; a pointer
// that was already visited is recorded as a back reference. Values of types
// from sync and sync/atomic are skipped: they are the library's own lazily
// built caches and locks, whose use is judged by the schedule exploration.
package frozen

import (
	"fmt"
	"hash/fnv"
	"math"
	"reflect"
	"sort"
)

// Dump lists "path = value" lines for all leaves reachable from v, in a
// canonical order (map entries sorted by the dump of their key).
func Dump(v interface{}) []string {
	d := &dumper{seen: map[visit]bool{}}
	d.walk("", reflect.ValueOf(v))
	return d.out
}

// Hash is a 64-bit digest of Dump(v).
func Hash(v interface{}) uint64 {
	h := fnv.New64a()
	for _, l := range Dump(v) {
		h.Write([]byte(l))
		h.Write([]byte{0})
	}
	return h.Sum64()
}

// Diff returns the first differing line of two dumps ("" if equal).
func Diff(a, b []string) string {
	for i := 0; i < len(a) && i < len(b); i++ {
		if a[i] != b[i] {
			return fmt.Sprintf("before: %s | after: %s", a[i], b[i])
		}
	}
	if len(a) != len(b) {
		return fmt.Sprintf("%d leaves before, %d after", len(a), len(b))
	}
	return ""
}

type visit struct {
	p uintptr
	t reflect.Type
}

type dumper struct {
	out  []string
	seen map[visit]bool
}

func skipType(t reflect.Type) bool {
	switch t.PkgPath() {
	case "sync", "sync/atomic", "internal/sync":
		return true
	}
	return false
}

func (d *dumper) leaf(path, val string) { d.out = append(d.out, path+" = "+val) }

func (d *dumper) walk(path string, v reflect.Value) {
	if !v.IsValid() {
		d.leaf(path, "<nil>")
		return
	}
	if skipType(v.Type()) {
		return
	}
	switch v.Kind() {
	case reflect.Bool:
		d.leaf(path, fmt.Sprint(v.Bool()))
	case reflect.Int, reflect.Int8, reflect.Int16, reflect.Int32, reflect.Int64:
		d.leaf(path, fmt.Sprint(v.Int()))
	case reflect.Uint, reflect.Uint8, reflect.Uint16, reflect.Uint32, reflect.Uint64, reflect.Uintptr:
		d.leaf(path, fmt.Sprint(v.Uint()))
	case reflect.Float32, reflect.Float64:
		d.leaf(path, fmt.Sprintf("%016x", math.Float64bits(v.Float())))
	case reflect.Complex64, reflect.Complex128:
		d.leaf(path, fmt.Sprint(v.Complex()))
	case reflect.String:
		d.leaf(path, fmt.Sprintf("%q", v.String()))
	case reflect.Func, reflect.Chan, reflect.UnsafePointer:
		if v.IsNil() {
			d.leaf(path, "<nil>")
		} else {
			d.leaf(path, "<"+v.Kind().String()+">")
		}
	case reflect.Interface:
		if v.IsNil() {
			d.leaf(path, "<nil>")
			return
		}
		e := v.Elem()
		d.walk(path+"("+e.Type().String()+")", e)
	case reflect.Ptr:
		if v.IsNil() {
			d.leaf(path, "<nil>")
			return
		}
		k := visit{v.Pointer(), v.Type()}
		if d.seen[k] {
			d.leaf(path, "<visited>")
			return
		}
		d.seen[k] = true
		d.walk(path+"*", v.Elem())
	case reflect.Struct:
		t := v.Type()
		for i := 0; i < v.NumField(); i++ {
			d.walk(path+"."+t.Field(i).Name, v.Field(i))
		}
	case reflect.Array:
		for i := 0; i < v.Len(); i++ {
			d.walk(fmt.Sprintf("%s[%d]", path, i), v.Index(i))
		}
	case reflect.Slice:
		if v.IsNil() {
			d.leaf(path, "<nil slice>")
			return
		}
		d.leaf(path+".len", fmt.Sprint(v.Len()))
		for i := 0; i < v.Len(); i++ {
			d.walk(fmt.Sprintf("%s[%d]", path, i), v.Index(i))
		}
	case reflect.Map:
		if v.IsNil() {
			d.leaf(path, "<nil map>")
			return
		}
		d.leaf(path+".len", fmt.Sprint(v.Len()))
		type entry struct {
			key   string
			lines []string
		}
		var es []entry
		it := v.MapRange()
		for it.Next() {
			// keys and values are dumped with their own visited sets so that the order of iteration cannot
			// influence what is recorded as a back reference
			kd := &dumper{seen: map[visit]bool{}}
			kd.walk("", it.Key())
			h := fnv.New64a()
			for _, l := range kd.out {
				h.Write([]byte(l))
				h.Write([]byte{0})
			}
			ks := fmt.Sprintf("%016x", h.Sum64())
			if len(kd.out) == 1 {
				ks = kd.out[0]
			}
			vd := &dumper{seen: map[visit]bool{}}
			vd.walk(path+"{"+ks+"}", it.Value())
			es = append(es, entry{ks, vd.out})
		}
		sort.Slice(es, func(i, j int) bool { return es[i].key < es[j].key })
		for _, e := range es {
			d.out = append(d.out, e.lines...)
		}
	default:
		d.leaf(path, "<"+v.Kind().String()+">")
	}
}
