// Package topo is an independent mesh-topology and winding-number checker.
// It shares no code with the library under test: meshes are handed over as
// plain coordinate arrays.
package topo

import (
	"fmt"
	"math"
	"sort"
)

type P3 = [3]float64
type T3 = [3]P3
type P2 = [2]float64
type S2 = [2]P2

// norm maps -0 to +0 so that array keys agree with ==.
func n0(x float64) float64 {
	if x == 0 {
		return 0
	}
	return x
}
func K3(p P3) P3 { return P3{n0(p[0]), n0(p[1]), n0(p[2])} }
func K2(p P2) P2 { return P2{n0(p[0]), n0(p[1])} }

// Report3 is the result of analysing a triangle soup.
type Report3 struct {
	V, E, F        int
	Degenerate     int // triangles with two equal vertices
	DupFaces       int // directed faces appearing more than once
	BadEdges       int // undirected edges not shared by exactly 2 triangles
	Misoriented    int // undirected edges with 2 triangles but same direction
	Pinched        int // vertices whose link is not a single cycle
	Components     int
	Euler          int
	Volume         float64
	FirstProblem   string
	vid            map[P3]int
	verts          []P3
	tris           [][3]int
	BadEdgeList    [][2]P3
	PinchedList    []P3
	MisorientedSet [][2]P3
}

func (r *Report3) Closed() bool { return r.BadEdges == 0 && r.Degenerate == 0 }

// Manifold: closed, oriented, no pinched vertex, no duplicate faces.
func (r *Report3) Manifold() bool {
	return r.BadEdges == 0 && r.Degenerate == 0 && r.Misoriented == 0 && r.Pinched == 0 && r.DupFaces == 0
}

func (r *Report3) String() string {
	return fmt.Sprintf("V=%d E=%d F=%d chi=%d comps=%d degenerate=%d dupfaces=%d badEdges=%d misoriented=%d pinched=%d vol=%g first=%q",
		r.V, r.E, r.F, r.Euler, r.Components, r.Degenerate, r.DupFaces, r.BadEdges, r.Misoriented, r.Pinched, r.Volume, r.FirstProblem)
}

func Analyze3(tris []T3) *Report3 {
	r := &Report3{vid: map[P3]int{}}
	id := func(p P3) int {
		k := K3(p)
		if i, ok := r.vid[k]; ok {
			return i
		}
		i := len(r.verts)
		r.vid[k] = i
		r.verts = append(r.verts, k)
		return i
	}
	note := func(s string) {
		if r.FirstProblem == "" {
			r.FirstProblem = s
		}
	}
	dir := map[[2]int]int{}
	faces := map[[3]int]int{}
	for _, t := range tris {
		a, b, c := id(t[0]), id(t[1]), id(t[2])
		r.tris = append(r.tris, [3]int{a, b, c})
		if a == b || b == c || a == c {
			r.Degenerate++
			note(fmt.Sprintf("degenerate triangle %v", t))
			continue
		}
		dir[[2]int{a, b}]++
		dir[[2]int{b, c}]++
		dir[[2]int{c, a}]++
		// canonical rotation
		f := [3]int{a, b, c}
		for f[0] > f[1] || f[0] > f[2] {
			f = [3]int{f[1], f[2], f[0]}
		}
		faces[f]++
		r.Volume += det3(t[0], t[1], t[2]) / 6
	}
	for _, n := range faces {
		if n > 1 {
			r.DupFaces += n - 1
			note("duplicate face")
		}
	}
	r.V, r.F = len(r.verts), len(tris)
	seen := map[[2]int]bool{}
	for e, n := range dir {
		u := e
		if u[0] > u[1] {
			u = [2]int{u[1], u[0]}
		}
		if seen[u] {
			continue
		}
		seen[u] = true
		r.E++
		f, b := dir[[2]int{u[0], u[1]}], dir[[2]int{u[1], u[0]}]
		_ = n
		if f+b != 2 {
			r.BadEdges++
			r.BadEdgeList = append(r.BadEdgeList, [2]P3{r.verts[u[0]], r.verts[u[1]]})
			note(fmt.Sprintf("edge %v-%v used by %d triangles", r.verts[u[0]], r.verts[u[1]], f+b))
		} else if f != 1 {
			r.Misoriented++
			r.MisorientedSet = append(r.MisorientedSet, [2]P3{r.verts[u[0]], r.verts[u[1]]})
			note(fmt.Sprintf("edge %v-%v traversed twice in the same direction", r.verts[u[0]], r.verts[u[1]]))
		}
	}
	r.Euler = r.V - r.E + r.F

	// vertex links: undirected graph on neighbours; the link must be one cycle.
	link := make([]map[int][]int, len(r.verts))
	for _, t := range r.tris {
		if t[0] == t[1] || t[1] == t[2] || t[0] == t[2] {
			continue
		}
		for k := 0; k < 3; k++ {
			v, a, b := t[k], t[(k+1)%3], t[(k+2)%3]
			if link[v] == nil {
				link[v] = map[int][]int{}
			}
			link[v][a] = append(link[v][a], b)
			link[v][b] = append(link[v][b], a)
		}
	}
	for v, g := range link {
		if g == nil {
			continue
		}
		ok := true
		for _, nb := range g {
			if len(nb) != 2 {
				ok = false
			}
		}
		// connected?
		var start int
		for k := range g {
			start = k
			break
		}
		vis := map[int]bool{start: true}
		stack := []int{start}
		for len(stack) > 0 {
			x := stack[len(stack)-1]
			stack = stack[:len(stack)-1]
			for _, y := range g[x] {
				if !vis[y] {
					vis[y] = true
					stack = append(stack, y)
				}
			}
		}
		if len(vis) != len(g) {
			ok = false
		}
		if !ok {
			r.Pinched++
			r.PinchedList = append(r.PinchedList, r.verts[v])
			note(fmt.Sprintf("vertex %v has a link that is not a single cycle", r.verts[v]))
		}
	}

	// components (by shared vertices)
	parent := make([]int, len(r.verts))
	for i := range parent {
		parent[i] = i
	}
	var find func(int) int
	find = func(x int) int {
		for parent[x] != x {
			parent[x] = parent[parent[x]]
			x = parent[x]
		}
		return x
	}
	for _, t := range r.tris {
		parent[find(t[0])] = find(t[1])
		parent[find(t[1])] = find(t[2])
	}
	roots := map[int]bool{}
	for i := range parent {
		roots[find(i)] = true
	}
	r.Components = len(roots)
	sort.Slice(r.PinchedList, func(i, j int) bool { return less3(r.PinchedList[i], r.PinchedList[j]) })
	return r
}

func less3(a, b P3) bool {
	for i := 0; i < 3; i++ {
		if a[i] != b[i] {
			return a[i] < b[i]
		}
	}
	return false
}

// EdgeComponents counts components where triangles are connected only through
// shared edges (used for Euler characteristic per surface sheet).
func EdgeComponents(tris []T3) int {
	type e = [2]P3
	owner := map[e][]int{}
	for i, t := range tris {
		for k := 0; k < 3; k++ {
			a, b := K3(t[k]), K3(t[(k+1)%3])
			if less3(b, a) {
				a, b = b, a
			}
			owner[e{a, b}] = append(owner[e{a, b}], i)
		}
	}
	parent := make([]int, len(tris))
	for i := range parent {
		parent[i] = i
	}
	var find func(int) int
	find = func(x int) int {
		for parent[x] != x {
			parent[x] = parent[parent[x]]
			x = parent[x]
		}
		return x
	}
	for _, o := range owner {
		for i := 1; i < len(o); i++ {
			parent[find(o[i])] = find(o[0])
		}
	}
	n := 0
	for i := range parent {
		if find(i) == i {
			n++
		}
	}
	return n
}

func det3(a, b, c P3) float64 {
	return a[0]*(b[1]*c[2]-b[2]*c[1]) - a[1]*(b[0]*c[2]-b[2]*c[0]) + a[2]*(b[0]*c[1]-b[1]*c[0])
}

func sub3(a, b P3) P3 { return P3{a[0] - b[0], a[1] - b[1], a[2] - b[2]} }
func dot3(a, b P3) float64 {
	return a[0]*b[0] + a[1]*b[1] + a[2]*b[2]
}
func norm3(a P3) float64 { return math.Sqrt(dot3(a, a)) }

// Winding3 returns the winding number of the oriented triangle soup around p
// (sum of signed solid angles / 4 pi; Van Oosterom & Strackee). Outward-facing
// closed surfaces give +1 inside.
func Winding3(tris []T3, p P3) float64 {
	var sum float64
	for _, t := range tris {
		a, b, c := sub3(t[0], p), sub3(t[1], p), sub3(t[2], p)
		la, lb, lc := norm3(a), norm3(b), norm3(c)
		num := det3(a, b, c)
		den := la*lb*lc + dot3(a, b)*lc + dot3(b, c)*la + dot3(c, a)*lb
		sum += 2 * math.Atan2(num, den)
	}
	return sum / (4 * math.Pi)
}

// Report2 analyses a directed segment soup.
type Report2 struct {
	V, E         int
	Degenerate   int
	DupSegs      int
	BadVerts     int // vertices with in-degree != 1 or out-degree != 1
	Area         float64
	Components   int
	FirstProblem string
	BadList      []P2
}

func (r *Report2) Manifold() bool { return r.Degenerate == 0 && r.DupSegs == 0 && r.BadVerts == 0 }
func (r *Report2) String() string {
	return fmt.Sprintf("V=%d E=%d comps=%d degenerate=%d dup=%d badVerts=%d area=%g first=%q", r.V, r.E, r.Components, r.Degenerate, r.DupSegs, r.BadVerts, r.Area, r.FirstProblem)
}

func Analyze2(segs []S2) *Report2 {
	r := &Report2{}
	in, out := map[P2]int{}, map[P2]int{}
	seen := map[S2]int{}
	nextOf := map[P2]P2{}
	note := func(s string) {
		if r.FirstProblem == "" {
			r.FirstProblem = s
		}
	}
	for _, s := range segs {
		a, b := K2(s[0]), K2(s[1])
		if a == b {
			r.Degenerate++
			note(fmt.Sprintf("degenerate segment %v", s))
			continue
		}
		seen[S2{a, b}]++
		out[a]++
		in[b]++
		nextOf[a] = b
		r.Area += (a[0]*b[1] - a[1]*b[0]) / 2
	}
	for _, n := range seen {
		if n > 1 {
			r.DupSegs += n - 1
			note("duplicate segment")
		}
	}
	verts := map[P2]bool{}
	for v := range in {
		verts[v] = true
	}
	for v := range out {
		verts[v] = true
	}
	r.V, r.E = len(verts), len(segs)
	for v := range verts {
		if in[v] != 1 || out[v] != 1 {
			r.BadVerts++
			r.BadList = append(r.BadList, v)
			note(fmt.Sprintf("vertex %v has in=%d out=%d", v, in[v], out[v]))
		}
	}
	if r.BadVerts == 0 && r.Degenerate == 0 {
		vis := map[P2]bool{}
		for v := range verts {
			if vis[v] {
				continue
			}
			r.Components++
			for x := v; !vis[x]; x = nextOf[x] {
				vis[x] = true
			}
		}
	}
	return r
}

// Winding2 is the winding number of directed segments around p (CCW = +1).
func Winding2(segs []S2, p P2) float64 {
	var sum float64
	for _, s := range segs {
		ax, ay := s[0][0]-p[0], s[0][1]-p[1]
		bx, by := s[1][0]-p[0], s[1][1]-p[1]
		sum += math.Atan2(ax*by-ay*bx, ax*bx+ay*by)
	}
	return sum / (2 * math.Pi)
}
