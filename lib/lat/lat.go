// Package lat provides lattice-defined solids: the inside/outside value at each
// point of the marching lattice is an arbitrary bit assignment, which is all a
// sampling mesher can see of a solid.
package lat

import (
	"math"

	"github.com/unixpickle/model3d/model2d"
	"github.com/unixpickle/model3d/model3d"
)

// Solid3 is a solid whose inner N[0] x N[1] x N[2] block of lattice points
// (positions Origin + i*Delta) carries Bits; everything else is outside.
// Between lattice points membership is that of the nearest lattice point
// (voxel solid), optionally with the transition on each edge moved to a
// per-edge fraction (Frac != nil).
//
// Bounds are Origin .. Origin+(N-1)*Delta+Delta/2 so that the lattice built by
// the meshers (min-delta, step delta, while <= max+delta) is exactly
// Origin-Delta+k*Delta for k=0..N+1 regardless of floating rounding.
type Solid3 struct {
	Origin model3d.Coord3D
	Delta  float64
	N      [3]int
	Bits   []bool // index x + N0*(y + N1*z)
	Calls  int64
}

func NewSolid3(origin model3d.Coord3D, delta float64, n [3]int, bits uint64) *Solid3 {
	s := &Solid3{Origin: origin, Delta: delta, N: n, Bits: make([]bool, n[0]*n[1]*n[2])}
	for i := range s.Bits {
		s.Bits[i] = bits&(1<<uint(i)) != 0
	}
	return s
}

func (s *Solid3) Min() model3d.Coord3D { return s.Origin }
func (s *Solid3) Max() model3d.Coord3D {
	return s.Origin.Add(model3d.XYZ(float64(s.N[0]-1)+0.5, float64(s.N[1]-1)+0.5, float64(s.N[2]-1)+0.5).Scale(s.Delta))
}

// At reports the bit of inner lattice index (i,j,k), false outside the block.
func (s *Solid3) At(i, j, k int) bool {
	if i < 0 || j < 0 || k < 0 || i >= s.N[0] || j >= s.N[1] || k >= s.N[2] {
		return false
	}
	return s.Bits[i+s.N[0]*(j+s.N[1]*k)]
}

func (s *Solid3) Contains(c model3d.Coord3D) bool {
	i := int(math.Floor((c.X-s.Origin.X)/s.Delta + 0.5))
	j := int(math.Floor((c.Y-s.Origin.Y)/s.Delta + 0.5))
	k := int(math.Floor((c.Z-s.Origin.Z)/s.Delta + 0.5))
	return s.At(i, j, k)
}

// Point returns the position of inner lattice index (i,j,k) (may be -1 or N).
func (s *Solid3) Point(i, j, k int) model3d.Coord3D {
	return s.Origin.Add(model3d.XYZ(float64(i), float64(j), float64(k)).Scale(s.Delta))
}

// Solid2 is the 2D analogue.
type Solid2 struct {
	Origin model2d.Coord
	Delta  float64
	N      [2]int
	Bits   []bool
}

func NewSolid2(origin model2d.Coord, delta float64, n [2]int, bits uint64) *Solid2 {
	s := &Solid2{Origin: origin, Delta: delta, N: n, Bits: make([]bool, n[0]*n[1])}
	for i := range s.Bits {
		s.Bits[i] = bits&(1<<uint(i)) != 0
	}
	return s
}
func (s *Solid2) Min() model2d.Coord { return s.Origin }
func (s *Solid2) Max() model2d.Coord {
	return s.Origin.Add(model2d.XY(float64(s.N[0]-1)+0.5, float64(s.N[1]-1)+0.5).Scale(s.Delta))
}
func (s *Solid2) At(i, j int) bool {
	if i < 0 || j < 0 || i >= s.N[0] || j >= s.N[1] {
		return false
	}
	return s.Bits[i+s.N[0]*j]
}
func (s *Solid2) Contains(c model2d.Coord) bool {
	i := int(math.Floor((c.X-s.Origin.X)/s.Delta + 0.5))
	j := int(math.Floor((c.Y-s.Origin.Y)/s.Delta + 0.5))
	return s.At(i, j)
}
func (s *Solid2) Point(i, j int) model2d.Coord {
	return s.Origin.Add(model2d.XY(float64(i), float64(j)).Scale(s.Delta))
}

// Tris converts a library mesh to plain arrays for package topo.
func Tris(m *model3d.Mesh) [][3][3]float64 {
	ts := m.TriangleSlice()
	out := make([][3][3]float64, len(ts))
	for i, t := range ts {
		for k := 0; k < 3; k++ {
			out[i][k] = t[k].Array()
		}
	}
	return out
}

func Segs(m *model2d.Mesh) [][2][2]float64 {
	ss := m.SegmentSlice()
	out := make([][2][2]float64, len(ss))
	for i, s := range ss {
		for k := 0; k < 2; k++ {
			out[i][k] = s[k].Array()
		}
	}
	return out
}
