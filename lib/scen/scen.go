// Package scen runs scenario batches of the schedule/decision-exploration worker
// (checks/sched) and folds the results into a check run. Shared by C10 and C18.
package scen

import (
	"bufio"
	"encoding/json"
	"fmt"
	"os"
	"os/exec"
	"path/filepath"
	"strings"
	"sync"

	"verif/lib/ev"
	"verif/lib/schedrun"
)

// Class extracts the violation class from "... VIOLATION <class>: ...".
func Class(msg string) string {
	if i := strings.Index(msg, "VIOLATION "); i >= 0 {
		rest := msg[i+10:]
		if j := strings.Index(rest, ":"); j >= 0 {
			return rest[:j]
		}
	}
	return "outcome"
}

func RunBatch(bound int, maxExecs int64, names []string) []schedrun.Result {
	dir := filepath.Join(ev.Work(), "scen")
	os.MkdirAll(dir, 0o755)
	const per = 12
	var chunks [][]string
	for i := 0; i < len(names); i += per {
		j := i + per
		if j > len(names) {
			j = len(names)
		}
		chunks = append(chunks, names[i:j])
	}
	var mu sync.Mutex
	var out []schedrun.Result
	bin := filepath.Join(ev.Work(), "bin", "sched")
	ev.Parallel(len(chunks), 16, func(ci int) {
		f := filepath.Join(dir, fmt.Sprintf("batch_%d_%d.txt", bound, ci))
		os.WriteFile(f, []byte(strings.Join(chunks[ci], "\n")+"\n"), 0o644)
		cmd := exec.Command(bin, "batch", fmt.Sprint(bound), fmt.Sprint(maxExecs), f)
		cmd.Env = append(os.Environ(), "GOMAXPROCS=2")
		so, err := cmd.Output()
		got := map[string]bool{}
		var res []schedrun.Result
		sc := bufio.NewScanner(strings.NewReader(string(so)))
		sc.Buffer(make([]byte, 1<<20), 1<<26)
		for sc.Scan() {
			var r schedrun.Result
			if json.Unmarshal(sc.Bytes(), &r) == nil && r.Scenario != "" {
				res = append(res, r)
				got[r.Scenario] = true
			}
		}
		if err != nil || len(res) != len(chunks[ci]) {
			// a scenario took the worker process down: run the missing ones one by one to name it
			for _, n := range chunks[ci] {
				if got[n] {
					continue
				}
				f1 := f + ".single"
				os.WriteFile(f1, []byte(n+"\n"), 0o644)
				c1 := exec.Command(bin, "batch", fmt.Sprint(bound), fmt.Sprint(maxExecs), f1)
				c1.Env = append(os.Environ(), "GOMAXPROCS=2")
				so1, err1 := c1.CombinedOutput()
				var r schedrun.Result
				lines := strings.Split(strings.TrimSpace(string(so1)), "\n")
				if err1 == nil && json.Unmarshal([]byte(lines[len(lines)-1]), &r) == nil && r.Scenario != "" {
					res = append(res, r)
				} else {
					msg := string(so1)
					if len(msg) > 2000 {
						msg = msg[:2000]
					}
					res = append(res, schedrun.Result{Scenario: n, Bound: bound, Failures: []schedrun.Failure{{Kind: "crash", Msg: "the worker process died: " + msg}}})
				}
			}
		}
		mu.Lock()
		out = append(out, res...)
		mu.Unlock()
	})
	if f := os.Getenv("VERIF_DUMP_SCEN"); f != "" { // debugging aid: per-scenario counters, to compare two runs
		if fh, err := os.OpenFile(f, os.O_APPEND|os.O_CREATE|os.O_WRONLY, 0o644); err == nil {
			for _, r := range out {
				fmt.Fprintf(fh, "%s bound=%d executions=%d points=%d nodes=%d failures=%d\n", r.Scenario, bound, r.Executions, r.Points, r.Nodes, len(r.Failures))
			}
			fh.Close()
		}
	}
	return out
}

func Report(r *ev.Run, results []schedrun.Result, family func(string) string) {
	for _, res := range results {
		r.Transitions(int(res.Points))
		r.Traces(int(res.Executions))
		r.StatesAdd(int(res.Nodes))
		r.Eval(int(res.Executions))
		if res.Executions > 1 {
			r.NontrivialKey("scenario/" + res.Scenario)
		}
		if res.Capped {
			r.NotExhaustive("execution cap reached in " + res.Scenario)
		}
		seen := map[string]bool{}
		for _, f := range res.Failures {
			kind := f.Kind
			if kind == "outcome" {
				kind = Class(f.Msg)
			}
			key := family(res.Scenario) + "/" + kind
			if strings.HasPrefix(res.Scenario, "chain") {
				key = "chain/" + key
			}
			if seen[key] {
				continue
			}
			seen[key] = true
			if f.Kind != "crash" {
				// the same decisions must fail every time; the detail text may differ once the mesh is already
				// corrupt (value-identical duplicate faces have no canonical order), so only the verdict is compared
				if !Confirm(r, res.Scenario, f.Choices) {
					ev.Fatal("failure in %s did not reproduce under replay: nondeterminism not owned by the harness", res.Scenario)
				}
			}
			msg := f.Msg
			if f.Kind == "horizon" {
				msg = "does not terminate: the execution exceeded the iteration horizon (50000 loop iterations / decisions)"
			}
			r.Violation(key, fmt.Sprintf("%s [%d non-default map-order choices]: %s", res.Scenario, nonzero(f.Choices), msg), schedrun.ReplayCase{Scenario: res.Scenario, Choices: f.Choices, Kind: f.Kind})
		}
	}
}

func Confirm(r *ev.Run, scenario string, choices []int) bool {
	cj, _ := json.Marshal(choices)
	if choices == nil {
		cj = []byte("[]")
	}
	first := ""
	for i := 0; i < 5; i++ {
		cmd := exec.Command(filepath.Join(ev.Work(), "bin", "sched"), "replay", scenario, string(cj))
		cmd.Env = append(os.Environ(), "GOMAXPROCS=2")
		out, err := cmd.Output()
		ee, ok := err.(*exec.ExitError)
		if err == nil || !ok || ee.ExitCode() != 1 {
			return false
		}
		if i == 0 {
			first = string(out)
		} else if string(out) != first {
			r.AddTo("failures_whose_detail_text_varies_between_replays", 1)
		}
	}
	return true
}

func nonzero(c []int) int {
	n := 0
	for _, x := range c {
		if x != 0 {
			n++
		}
	}
	return n
}
