// Package schedrun drives the schedule-exploration worker (checks/sched): it
// regenerates the instrumented copy of /repo's current tree, builds the worker
// against it, fans scenarios out over processes, confirms failures by replay,
// and runs the free-running -race pass of the same bodies.
package schedrun

import (
	"bytes"
	"encoding/json"
	"fmt"
	"os"
	"os/exec"
	"path/filepath"
	"strings"
	"sync"
	"time"

	"verif/lib/ev"
)

type Failure struct {
	Kind    string `json:"kind"`
	Msg     string `json:"msg"`
	Choices []int  `json:"choices"`
}

type Result struct {
	Scenario   string    `json:"scenario"`
	Bound      int       `json:"bound"`
	Mode       string    `json:"mode"`
	Executions int64     `json:"executions"`
	Points     int64     `json:"points"`
	Nodes      int64     `json:"nodes"`
	MaxDepth   int       `json:"max_depth"`
	Threads    int       `json:"threads"`
	Outcomes   int       `json:"distinct_outcomes"`
	Capped     bool      `json:"capped"`
	Failures   []Failure `json:"failures"`
	Reference  string    `json:"reference"`
	WallS      float64   `json:"wall_s"`
	Sample     []int     `json:"sample_schedule"`
}

// VERIF_GOFLAGS (an -overlay flag) is only set by tools/seed_eval.sh
var goEnv = []string{strings.TrimSpace("GOFLAGS=-mod=mod " + os.Getenv("VERIF_GOFLAGS")), "GOPROXY=off", "GOSUMDB=off", "GOTOOLCHAIN=local"}

func run(dir string, env []string, name string, args ...string) (string, string, error) {
	cmd := exec.Command(name, args...)
	cmd.Dir = dir
	cmd.Env = append(append(os.Environ(), goEnv...), env...)
	var so, se bytes.Buffer
	cmd.Stdout, cmd.Stderr = &so, &se
	err := cmd.Run()
	return so.String(), se.String(), err
}

var buildOnce sync.Once

// Build regenerates the instrumented tree and builds the worker binaries.
// Any failure here is a machinery error (exit 2), never a verdict.
func Build(race bool) {
	buildOnce.Do(func() {
		work := ev.Work()
		os.MkdirAll(filepath.Join(work, "bin"), 0o755)
		if _, se, err := run(ev.Root, nil, "go", "build", "-o", filepath.Join(work, "bin", "instr"), "./tools/instr"); err != nil {
			ev.Fatal("building the instrumenter failed: %v\n%s", err, se)
		}
		if so, se, err := run(ev.Root, nil, filepath.Join(work, "bin", "instr"), "-repo", ev.RepoDir(), "-out", filepath.Join(work, "instr")); err != nil {
			ev.Fatal("instrumenting /repo failed: %v\n%s%s", err, so, se)
		}
		if _, se, err := run(ev.Root, nil, "go", "build", "-modfile="+filepath.Join(work, "instr", "go.mod"), "-tags", "verif", "-o", filepath.Join(work, "bin", "sched"), "./checks/sched"); err != nil {
			ev.Fatal("building the schedule worker against the instrumented tree failed: %v\n%s", err, se)
		}
	})
	if race {
		work := ev.Work()
		if _, se, err := run(ev.Root, nil, "go", "build", "-race", "-tags", "verif", "-o", filepath.Join(work, "bin", "sched_race"), "./checks/sched"); err != nil {
			ev.Fatal("building the -race worker failed: %v\n%s", err, se)
		}
	}
}

// List returns the scenario names registered for prop.
func List(prop string) []string {
	so, se, err := run(ev.Root, nil, filepath.Join(ev.Work(), "bin", "sched"), "list")
	if err != nil {
		ev.Fatal("sched list: %v %s", err, se)
	}
	var out []string
	for _, l := range strings.Split(strings.TrimSpace(so), "\n") {
		f := strings.Fields(l)
		if len(f) == 2 && f[0] == prop {
			out = append(out, f[1])
		}
	}
	return out
}

type Job struct {
	Scenario string
	Bound    int
	MaxExecs int64
	Delay    bool // delay-bounded instead of preemption-bounded
}

// Explore runs the jobs on up to 16 worker processes.
func Explore(r *ev.Run, jobs []Job) []Result {
	results := make([]Result, len(jobs))
	ev.Parallel(len(jobs), 16, func(i int) {
		j := jobs[i]
		args := []string{"explore", j.Scenario, fmt.Sprint(j.Bound)}
		args = append(args, fmt.Sprint(j.MaxExecs))
		if j.Delay {
			args = append(args, "delay")
		}
		so, se, err := run(ev.Root, []string{"GOMAXPROCS=2"}, filepath.Join(ev.Work(), "bin", "sched"), args...)
		if err != nil {
			ev.Fatal("worker failed on %s: %v\n%s", j.Scenario, err, se)
		}
		if e := json.Unmarshal([]byte(so), &results[i]); e != nil {
			ev.Fatal("worker output for %s not understood: %v\n%s\n%s", j.Scenario, e, so, se)
		}
	})
	return results
}

// Confirm replays a failing schedule 5 times; all must violate identically.
func Confirm(scenario string, choices []int) (confirmed bool, detail string) {
	cj, _ := json.Marshal(choices)
	var first string
	for i := 0; i < 5; i++ {
		so, se, err := run(ev.Root, []string{"GOMAXPROCS=2"}, filepath.Join(ev.Work(), "bin", "sched"), "replay", scenario, string(cj))
		if err == nil {
			return false, "replay did not violate: " + so
		}
		if ee, ok := err.(*exec.ExitError); !ok || ee.ExitCode() != 1 {
			ev.Fatal("replay of %s failed: %v\n%s", scenario, err, se)
		}
		if i == 0 {
			first = so
		} else if so != first {
			return false, "replays differ"
		}
	}
	return true, first
}

// Family strips the configuration suffix so that findings are keyed by routine.
func Family(scenario string) string {
	if i := strings.Index(scenario, "/"); i >= 0 {
		return scenario[:i]
	}
	return scenario
}

type ReplayCase struct {
	Scenario string `json:"scenario"`
	Choices  []int  `json:"choices"`
	Kind     string `json:"kind"`
	Race     string `json:"race_report,omitempty"`
}

// Report folds worker results into the run: counters, samples, violations.
func Report(r *ev.Run, results []Result) {
	for _, res := range results {
		r.Transitions(int(res.Points))
		r.Traces(int(res.Executions))
		r.StatesAdd(int(res.Nodes))
		r.Eval(int(res.Executions))
		if res.Executions > 1 {
			r.NontrivialKey("scenario/" + res.Scenario)
		}
		if res.Capped {
			r.NotExhaustive("execution cap reached in " + res.Scenario)
		}
		r.Outcome(res.Scenario + "#" + fmt.Sprint(res.Outcomes))
		if res.Sample != nil {
			r.Sample(map[string]interface{}{"scenario": res.Scenario, "bound": res.Bound, "schedule": res.Sample, "executions": res.Executions, "threads": res.Threads})
		}
		seen := map[string]bool{}
		for _, f := range res.Failures {
			if seen[f.Kind] {
				continue
			}
			seen[f.Kind] = true
			ok, detail := Confirm(res.Scenario, f.Choices)
			if !ok {
				ev.Fatal("failure in %s did not reproduce under replay (%s): nondeterminism not owned by the harness", res.Scenario, detail)
			}
			r.Violation("sched/"+Family(res.Scenario)+"/"+f.Kind, fmt.Sprintf("%s: %s", res.Scenario, f.Msg), ReplayCase{res.Scenario, f.Choices, f.Kind, ""})
		}
	}
}

// RacePass runs the same bodies free-running under the race detector.
func RacePass(r *ev.Run, scenarios []string, reps int) {
	var mu sync.Mutex
	races := 0
	ev.Parallel(len(scenarios), 4, func(i int) {
		sc := scenarios[i]
		so, se, err := run(ev.Root, []string{"GORACE=halt_on_error=0"}, filepath.Join(ev.Work(), "bin", "sched_race"), "race", sc, fmt.Sprint(reps))
		r.Eval(reps)
		if strings.Contains(se, "WARNING: DATA RACE") {
			mu.Lock()
			races++
			mu.Unlock()
			rep := se
			if len(rep) > 6000 {
				rep = rep[:6000]
			}
			r.Violation("race/"+Family(sc), "data race reported by the free-running -race pass of "+sc, ReplayCase{sc, nil, "race", rep})
		} else if err != nil {
			ev.Fatal("race worker failed on %s: %v\n%s", sc, err, se)
		}
		if strings.Contains(so, "MISMATCH") {
			r.Violation("race/"+Family(sc)+"/outcome", "free-running result differs from the sequential result: "+so, ReplayCase{sc, nil, "free-running-mismatch", so})
		}
	})
	r.Set("race_pass_scenarios", len(scenarios))
	r.Set("race_pass_repetitions_each", reps)
	r.Set("race_reports", races)
}

// Budget helper.
func Since(t time.Time) float64 { return time.Since(t).Seconds() }
